#!/bin/sh
# Offline setup: install runtime-contract libraries beside the repo's interpreter.
set -e
cd "$(dirname "$0")"
if [ ! -d .deps/icontract ]; then
  PIP_NO_INDEX=1 /venv/bin/pip install -q --no-index --find-links /opt/veriftools/wheels --target .deps icontract deal >/dev/null 2>&1 || \
  echo "setup: icontract/deal install failed (contracts will be reported as unavailable)" >&2
fi
# performance shim (see vf/native/mmapcache.c); optional
mkdir -p .deps
gcc -O2 -shared -fPIC -o .deps/mmapcache.so vf/native/mmapcache.c -ldl 2>/dev/null || echo "setup: mmapcache shim not built (checks run slower)" >&2
mkdir -p evidence .work
/venv/bin/python -c "import casadi, sympy, lxml, jinja2, antlr4; print('setup ok')"
