"""Flat (single-class) Modelica models with a reference semantics.

Model description (plain dict/tuples so it serialises into replay files):
  {"name": "M",
   "vars": [{"name","type","prefixes":[..],"dims":[..],"attrs":{attr: expr},"value": expr|None,
             "comment": str}],
   "eqs": [eq...], "ieqs": [eq...], "funcs": [func...]}
  eq   : ("eq", lhs, rhs) | ("if", [(cond,[eqs])...], [else eqs]) | ("for", idx, lo, step|None, hi, [eqs])
         | ("eqn", [lhs...], call)            multi-output function call  (a, b) = f(x)
  func : {"name","inputs":[(name,dims)],"outputs":[(name,dims)],"protected":[(name,dims)],"stmts":[st...]}
  st   : ("assign", target_expr, rhs) | ("ifs", [(cond,[sts])...], [else sts]) | ("fors", idx, lo, hi, [sts])
"""
import numpy as np

from . import mexpr


def P(e):
    return mexpr.to_text(e)


def print_var(v):
    s = "  "
    if v["prefixes"]:
        s += " ".join(v["prefixes"]) + " "
    s += v["type"] + " " + v["name"]
    if v["dims"]:
        s += "[" + ", ".join(str(d) for d in v["dims"]) + "]"
    attrs = v.get("attrs") or {}
    if attrs:
        s += "(" + ", ".join("%s = %s" % (k, P(e)) for k, e in attrs.items()) + ")"
    if v.get("value") is not None:
        s += " = " + P(v["value"])
    if v.get("comment"):
        s += ' "%s"' % v["comment"]
    return s + ";\n"


def print_eq(e, ind="  "):
    k = e[0]
    if k == "eq":
        return "%s%s = %s;\n" % (ind, mexpr.Printer().p_(e[1], 1), P(e[2]))
    if k == "eqn":
        return "%s(%s) = %s;\n" % (ind, ", ".join(P(x) for x in e[1]), P(e[2]))
    if k == "if":
        s = ""
        for i, (c, body) in enumerate(e[1]):
            s += "%s%s %s then\n" % (ind, "if" if i == 0 else "elseif", P(c))
            s += "".join(print_eq(b, ind + "  ") for b in body)
        if e[2] is not None:
            s += ind + "else\n" + "".join(print_eq(b, ind + "  ") for b in e[2])
        return s + ind + "end if;\n"
    if k == "for":
        _, idx, lo, step, hi, body = e
        rng = P(lo) + ":" + (P(step) + ":" if step is not None else "") + P(hi)
        return "%sfor %s in %s loop\n%s%send for;\n" % (
            ind, idx, rng, "".join(print_eq(b, ind + "  ") for b in body), ind)
    raise ValueError(k)


def print_st(s, ind="  "):
    k = s[0]
    if k == "assign":
        return "%s%s := %s;\n" % (ind, P(s[1]), P(s[2]))
    if k == "ifs":
        out = ""
        for i, (c, body) in enumerate(s[1]):
            out += "%s%s %s then\n" % (ind, "if" if i == 0 else "elseif", P(c))
            out += "".join(print_st(b, ind + "  ") for b in body)
        if s[2] is not None:
            out += ind + "else\n" + "".join(print_st(b, ind + "  ") for b in s[2])
        return out + ind + "end if;\n"
    if k == "fors":
        _, idx, lo, hi, body = s
        return "%sfor %s in %s:%s loop\n%s%send for;\n" % (
            ind, idx, P(lo), P(hi), "".join(print_st(b, ind + "  ") for b in body), ind)
    raise ValueError(k)


def print_func(f):
    if "." in f["name"]:
        # a function in a package of its own: "Pk.f"
        pkg, short = f["name"].split(".", 1)
        body = print_func(dict(f, name=short))
        return "package %s\n%send %s;\n" % (pkg, "".join("  " + l + "\n" for l in body.splitlines()), pkg)
    s = "function %s\n" % f["name"]
    for kind, key in (("input", "inputs"), ("output", "outputs")):
        for nm, dims in f[key]:
            s += "  %s Real %s%s;\n" % (kind, nm, "[" + ", ".join(map(str, dims)) + "]" if dims else "")
    if f.get("protected"):
        s += "protected\n"
        for nm, dims in f["protected"]:
            s += "  Real %s%s;\n" % (nm, "[" + ", ".join(map(str, dims)) + "]" if dims else "")
    s += "algorithm\n" + "".join(print_st(st) for st in f["stmts"])
    return s + "end %s;\n" % f["name"]


def print_model(m, kind="model"):
    s = "".join(print_func(f) + "\n" for f in m.get("funcs", []))
    s += "%s %s\n" % (kind, m["name"])
    s += "".join(print_var(v) for v in m["vars"])
    if m.get("ieqs"):
        s += "initial equation\n" + "".join(print_eq(e) for e in m["ieqs"])
    if m.get("eqs"):
        s += "equation\n" + "".join(print_eq(e) for e in m["eqs"])
    return s + "end %s;\n" % m["name"]


# ---------------------------------------------------------------------------------------------
# reference semantics
# ---------------------------------------------------------------------------------------------
def make_function(f, funcs):
    def call(ev, args):
        env = {}
        for (nm, dims), a in zip(f["inputs"], args):
            env[nm] = a
        for nm, dims in f["outputs"] + f.get("protected", []):
            env[nm] = np.zeros(dims) if dims else 0.0
        sub = mexpr.Evaluator(env, ev.logic, funcs)
        run_stmts(sub, f["stmts"])
        ev.maxabs = max(ev.maxabs, sub.maxabs)
        outs = [env[nm] for nm, _ in f["outputs"]]
        return outs[0] if len(outs) == 1 else outs
    return call


def run_stmts(ev, stmts):
    for s in stmts:
        k = s[0]
        if k == "assign":
            val = ev.ev(s[2])
            tgt = s[1]
            if tgt[0] == "var":
                ev.env[tgt[1]] = val
            else:
                arr = np.array(ev.env[tgt[1]], dtype=float)
                ix = tuple(ev.subval(x, arr.shape[i]) for i, x in enumerate(tgt[2]))
                arr[ix] = val
                ev.env[tgt[1]] = arr
        elif k == "ifs":
            done = False
            for c, body in s[1]:
                if ev.truth(ev.ev(c)):
                    run_stmts(ev, body)
                    done = True
                    break
            if not done and s[2] is not None:
                run_stmts(ev, s[2])
        elif k == "fors":
            _, idx, lo, hi, body = s
            for i in range(int(ev.ev(lo)), int(ev.ev(hi)) + 1):
                ev.env[idx] = i
                run_stmts(ev, body)
            ev.env.pop(idx, None)
        else:
            raise ValueError(k)


def functions_of(m):
    funcs = {}
    for f in m.get("funcs", []):
        funcs[f["name"]] = make_function(f, funcs)
    return funcs


def eq_residual(ev, e):
    """-> flat list of residual values of one equation node (order inside is unspecified)."""
    k = e[0]
    if k == "eq":
        l, r = ev.ev(e[1]), ev.ev(e[2])
        d = np.asarray(l, dtype=float) - np.asarray(r, dtype=float)
        return list(np.atleast_1d(d).reshape(-1))
    if k == "eqn":
        outs = ev.ev(e[2])
        if not isinstance(outs, list):
            outs = [outs]
        vals = []
        for lhs, o in zip(e[1], outs):     # extra outputs are discarded (Modelica allows it)
            d = np.asarray(ev.ev(lhs), dtype=float) - np.asarray(o, dtype=float)
            vals.extend(np.atleast_1d(d).reshape(-1))
        return vals
    if k == "if":
        for c, body in e[1]:
            if ev.truth(ev.ev(c)):
                return [x for b in body for x in eq_residual(ev, b)]
        return [x for b in (e[2] or []) for x in eq_residual(ev, b)]
    if k == "for":
        _, idx, lo, step, hi, body = e
        lo_, hi_ = int(ev.ev(lo)), int(ev.ev(hi))
        st = 1 if step is None else int(ev.ev(step))
        vals = []
        saved = ev.env.get(idx, None)
        for i in range(lo_, hi_ + (1 if st > 0 else -1), st):
            ev.env[idx] = i
            for b in body:
                vals.extend(eq_residual(ev, b))
        if saved is None:
            ev.env.pop(idx, None)
        else:
            ev.env[idx] = saved
        return vals
    raise ValueError(k)


def residual_blocks(m, env, initial=False, logic="casadi", with_scale=False):
    """-> list of blocks (one per top-level equation, declaration order); may raise mexpr.Undefined.
    with_scale: also return the largest intermediate magnitude met (for the comparison tolerance)."""
    ev = mexpr.Evaluator(dict(env), logic, functions_of(m))
    blocks = [eq_residual(ev, e) for e in (m.get("ieqs", []) if initial else m.get("eqs", []))]
    return (blocks, ev.maxabs) if with_scale else blocks


def compare_blocks(blocks, got, rtol=1e-8, atol=1e-9, scale=1.0):
    atol = atol * max(1.0, scale)
    """reference blocks vs pymoca's flat residual vector: block sizes must add up and every block
    must match as a multiset (order inside an equation's block is a representation detail).
    -> None or a description."""
    n = sum(len(b) for b in blocks)
    got = np.asarray(got, dtype=float).reshape(-1)
    if got.size != n:
        return "residual has %d entries, reference %d" % (got.size, n)
    pos = 0
    for i, b in enumerate(blocks):
        g = np.sort(got[pos:pos + len(b)])
        r = np.sort(np.asarray(b, dtype=float))
        pos += len(b)
        if not np.all(np.isfinite(g)):
            return "equation %d: non-finite residual %s (reference %s)" % (i + 1, g, r)
        if not np.all(np.abs(g - r) <= atol + rtol * np.maximum(np.abs(g), np.abs(r))):
            return "equation %d: residual %s != reference %s" % (i + 1, g, r)
    return None


# ---------------------------------------------------------------------------------------------
# reference classification (C10)
# ---------------------------------------------------------------------------------------------
def der_targets(m):
    """names of variables appearing under der() in equations or initial equations."""
    out = set()

    def walk_e(e):
        if e is None:
            return
        t = e[0]
        if t == "der":
            out.update(v for v in mexpr.vars_in(e[1]))
        elif t == "bin":
            walk_e(e[2]); walk_e(e[3])
        elif t in ("neg", "pos", "not"):
            walk_e(e[1])
        elif t == "if":
            for c, x in e[1]:
                walk_e(c); walk_e(x)
            walk_e(e[2])
        elif t in ("call",):
            for a in e[2]:
                walk_e(a)
        elif t == "arr":
            for a in e[1]:
                walk_e(a)

    def walk_q(q):
        k = q[0]
        if k == "eq":
            walk_e(q[1]); walk_e(q[2])
        elif k == "eqn":
            for x in q[1]:
                walk_e(x)
            walk_e(q[2])
        elif k == "if":
            for c, body in q[1]:
                walk_e(c)
                for b in body:
                    walk_q(b)
            for b in (q[2] or []):
                walk_q(b)
        elif k == "for":
            for b in q[5]:
                walk_q(b)
    for q in m.get("eqs", []) + m.get("ieqs", []):
        walk_q(q)
    return out


def classify(m, top_level=True):
    """reference classification by the property's precedence. -> dict category -> [names] in
    declaration order, plus 'outputs'."""
    ders = der_targets(m)
    cat = {k: [] for k in ("states", "alg_states", "inputs", "parameters", "constants",
                           "string_parameters", "string_constants")}
    outputs = []
    for v in m["vars"]:
        pf, nm = v["prefixes"], v["name"]
        is_str = v["type"] == "String"
        if "constant" in pf:
            cat["string_constants" if is_str else "constants"].append(nm)
        elif "parameter" in pf:
            cat["string_parameters" if is_str else "parameters"].append(nm)
        elif "input" in pf and top_level:
            cat["inputs"].append(nm)
        elif nm in ders:
            cat["states"].append(nm)
            if "output" in pf:
                outputs.append(nm)
        else:
            cat["alg_states"].append(nm)
            if "output" in pf:
                outputs.append(nm)
    cat["outputs"] = outputs
    return cat
