"""Runner: shards a check over worker subprocesses, aggregates what the monitors observed,
matches violations against known_findings.json, writes evidence and replay files and
implements the exit protocol (0 held / 1 violation / 2 inconclusive)."""
import hashlib
import importlib
import json
import os
import shutil
import subprocess
import sys
import time

VERIF = os.path.dirname(os.path.dirname(os.path.abspath(__file__)))
REPO = os.environ.get("VERIF_REPO", "/repo")
# exploratory runs (other seeds, scratch trees) can send evidence and replay files elsewhere
OUT = os.environ.get("VERIF_OUT", VERIF)
PY = "/venv/bin/python"

CHECKS = {
    "C01": "c01_parse_cache", "C02": "c02_parse_concurrent", "C03": "c03_expr_precedence",
    "C04": "c04_class_structure", "C05": "c05_flatten_repeat", "C06": "c06_deepcopy",
    "C07": "c07_hier_flatten", "C08": "c08_modifications", "C09": "c09_connections",
    "C10": "c10_classification", "C11": "c11_residual", "C12": "c12_repr_options",
    "C13": "c13_metadata", "C14": "c14_simplify_solutions", "C15": "c15_simplify_square",
    "C16": "c16_alias_metadata", "C17": "c17_alias_relation", "C18": "c18_expand_vectors",
    "C19": "c19_cache_equal", "C20": "c20_cache_stale", "C21": "c21_cache_crash",
    "C22": "c22_delay", "C23": "c23_subscripts", "C24": "c24_sympy", "C25": "c25_xml",
    "C26": "c26_cli", "C27": "c27_library_merge",
}


def child_env(workdir):
    env = dict(os.environ)
    env["PYTHONPATH"] = os.pathsep.join(
        [VERIF, os.path.join(REPO, "src"), REPO, os.path.join(VERIF, ".deps")])
    env["PYTHONDONTWRITEBYTECODE"] = "1"
    env["PYTHONHASHSEED"] = "0"
    env["HOME"] = workdir
    env["XDG_CACHE_HOME"] = os.path.join(workdir, "xdg")
    env["VERIF_WORK"] = workdir
    env["PYMOCA_VERIF"] = "1"
    env.setdefault("OMP_NUM_THREADS", "1")
    env.setdefault("OPENBLAS_NUM_THREADS", "1")
    # page faults are expensive in this sandbox: keep freed memory in the process
    env.setdefault("MALLOC_TRIM_THRESHOLD_", "2000000000")
    env.setdefault("MALLOC_TOP_PAD_", "67108864")
    env["VERIF_PREP"] = os.path.join(workdir, "prep")
    shim = os.path.join(VERIF, ".deps", "mmapcache.so")
    if os.path.exists(shim) and not os.environ.get("VERIF_NO_SHIM"):
        env["LD_PRELOAD"] = shim
    return env


def ensure_deps():
    if not os.path.isdir(os.path.join(VERIF, ".deps", "icontract")) or not os.path.exists(
            os.path.join(VERIF, ".deps", "mmapcache.so")):
        subprocess.run(["/bin/sh", os.path.join(VERIF, "setup.sh")], stdout=subprocess.DEVNULL,
                       stderr=subprocess.DEVNULL)


def load_known():
    path = os.path.join(VERIF, "known_findings.json")
    if not os.path.exists(path):
        return []
    with open(path) as f:
        return json.load(f).get("findings", [])


def _digest(obj):
    return hashlib.sha256(json.dumps(obj, sort_keys=True, default=str).encode()).hexdigest()[:16]


def run_check(pid, tier, seed, replay=None, nshards=None, budget=None):
    ensure_deps()
    t0 = time.time()
    modname = CHECKS[pid]
    workdir = os.path.join(VERIF, ".work", "%s.%d" % (pid, os.getpid()))
    shutil.rmtree(workdir, ignore_errors=True)
    os.makedirs(workdir)
    try:
        return _run(pid, modname, tier, seed, replay, nshards, budget, workdir, t0)
    finally:
        shutil.rmtree(workdir, ignore_errors=True)


def _run(pid, modname, tier, seed, replay, nshards, budget, workdir, t0):
    env = child_env(workdir)
    sys.path[:0] = [p for p in env["PYTHONPATH"].split(os.pathsep) if p not in sys.path]
    # plan: read static attributes of the module without importing pymoca in the parent
    meta = json.loads(subprocess.run(
        [PY, "-m", "vf.worker", "--meta", modname, tier], env=env, cwd=VERIF,
        capture_output=True, text=True, check=True).stdout.strip().splitlines()[-1])
    if nshards is None:
        nshards = meta.get("shards", 16)
    if budget is None:
        budget = float(os.environ.get("VERIF_BUDGET_S", meta.get("budget_s", 40)))
    if replay:
        nshards = 1
    if meta.get("prepare"):
        os.makedirs(env["VERIF_PREP"], exist_ok=True)
        pp = subprocess.run([PY, "-m", "vf.worker", "--prepare", modname, tier], env=env, cwd=VERIF,
                            capture_output=True, text=True, timeout=600)
        if pp.returncode != 0:
            print("PREPARE failed:\n" + (pp.stdout + pp.stderr)[-2000:])
            print("INCONCLUSIVE property=%s reason=prepare step failed" % pid)
            return 2
    procs = []
    for sh in range(nshards):
        out = os.path.join(workdir, "shard%d.json" % sh)
        swork = os.path.join(workdir, "s%d" % sh)
        os.makedirs(swork)
        senv = dict(env)
        senv["VERIF_WORK"] = swork
        senv["HOME"] = swork
        senv["XDG_CACHE_HOME"] = os.path.join(swork, "xdg")
        cmd = [PY, "-m", "vf.worker", modname, tier, str(seed), str(sh), str(nshards),
               str(budget), out]
        if replay:
            cmd.append(os.path.abspath(replay))
        log = open(os.path.join(workdir, "shard%d.log" % sh), "w")
        procs.append((sh, out, subprocess.Popen(cmd, env=senv, cwd=VERIF, stdout=log,
                                                stderr=subprocess.STDOUT), log))
    hard = budget * meta.get("hard_factor", 4) + 120
    results, lost = [], []
    for sh, out, p, log in procs:
        left = max(5.0, hard - (time.time() - t0))
        try:
            p.wait(timeout=left)
        except subprocess.TimeoutExpired:
            p.kill()
            p.wait()
        log.close()
        if os.path.exists(out):
            with open(out) as f:
                results.append(json.load(f))
        else:
            tail = ""
            try:
                with open(os.path.join(workdir, "shard%d.log" % sh)) as f:
                    tail = f.read()[-1500:]
            except OSError:
                pass
            lost.append({"shard": sh, "rc": p.returncode, "log_tail": tail})
    return aggregate(pid, meta, tier, seed, results, lost, t0, replay)


def aggregate(pid, meta, tier, seed, results, lost, t0, replay):
    evaluations = sum(r["cases"] for r in results)
    digests = set()
    cover, monitors, discards = {}, {}, {}
    samples, violations, inconclusive = [], [], []
    extra = {}
    for r in results:
        digests.update(r["digests"])
        for src, dst in ((r["cover"], cover), (r["monitors"], monitors), (r["discards"], discards)):
            for k, v in src.items():
                dst[k] = dst.get(k, 0) + v
        for s in r["samples"]:
            if len(samples) < 4:
                samples.append(s)
        violations.extend(r["violations"])
        inconclusive.extend(r["inconclusive"])
        for k, v in r.get("extra", {}).items():
            if isinstance(v, (int, float)) and not isinstance(v, bool):
                extra[k] = extra.get(k, 0) + v
            elif isinstance(v, list):
                extra.setdefault(k, [])
                for x in v:
                    if x not in extra[k] and len(extra[k]) < 200:
                        extra[k].append(x)
            else:
                extra[k] = v
    known = [k for k in load_known() if k.get("property") == pid and k.get("status") == "open"]
    known_keys = {k["key"]: k for k in known}
    known_seen, new = {}, []
    for v in violations:
        if v["key"] in known_keys:
            known_seen[v["key"]] = known_seen.get(v["key"], 0) + 1
        else:
            new.append(v)
    # replay files for new violations (one per distinct key + a few more)
    if not replay:
        shutil.rmtree(os.path.join(OUT, "replays", pid), ignore_errors=True)
    printed = []
    per_key = {}
    for v in new:
        per_key[v["key"]] = per_key.get(v["key"], 0) + 1
        if per_key[v["key"]] > 2 or len(printed) >= 25:
            continue
        d = os.path.join(OUT, "replays", pid)
        os.makedirs(d, exist_ok=True)
        path = os.path.join(d, _digest(v) + ".json")
        with open(path, "w") as f:
            json.dump({"property": pid, "tier": tier, "seed": seed, "key": v["key"],
                       "what": v["what"], "case": v["case"]}, f, indent=1, default=str)
        printed.append((v, path))
    required = meta.get("required_monitors", [])
    missing = [m for m in required if monitors.get(m, 0) == 0]
    incon_reasons = []
    if lost:
        incon_reasons.append("%d worker shard(s) lost" % len(lost))
    if missing and not replay:
        incon_reasons.append("deciding monitor(s) never evaluated: %s" % ",".join(missing))
    if evaluations and len(inconclusive) > max(2, 0.02 * evaluations):
        incon_reasons.append("%d of %d cases inconclusive" % (len(inconclusive), evaluations))
    if evaluations == 0 and not replay:
        incon_reasons.append("no cases executed")
    wall = time.time() - t0
    if not replay:
        ev = {
            "property_id": pid, "tier": tier, "seed": seed, "level": meta["level"],
            "wall_s": round(wall, 2), "violations": len(new),
            "coverage": {
                "evaluations": evaluations,
                "distinct_nontrivial": len(digests),
                "rule": meta["rule"],
                "samples": samples,
                "observed": dict(sorted(cover.items())),
                "monitor_evaluations": monitors,
                "discards": discards,
                "inconclusive_cases": len(inconclusive),
                "inconclusive_reasons": sorted({i["reason"][:120] for i in inconclusive})[:10],
                "known_findings_seen": known_seen,
                "new_violation_keys": per_key,
                "shards": len(results), "shards_lost": len(lost),
                "verdict": ("violated" if new else "inconclusive" if incon_reasons
                            else "held on what was observed"),
            },
            "assumptions": meta.get("assumptions", []),
        }
        if meta.get("exhaustive") is not None:
            ev["coverage"]["exhaustive"] = bool(meta["exhaustive"])
        ev["coverage"].update(extra)
        os.makedirs(os.path.join(OUT, "evidence"), exist_ok=True)
        tmp = os.path.join(OUT, "evidence", pid + ".json.tmp")
        with open(tmp, "w") as f:
            json.dump(ev, f, indent=1, default=str)
        os.replace(tmp, os.path.join(OUT, "evidence", pid + ".json"))
    for k in known:
        if k["key"] in known_seen:
            print("KNOWN-FINDING: property=%s %s [%s] (seen %d times)" % (
                pid, k["what"], k["key"], known_seen[k["key"]]))
    for v, path in printed:
        print("VIOLATION property=%s replay=%s" % (pid, path))
        print("  key=%s  %s" % (v["key"], str(v["what"])[:400]))
    if new and len(new) > len(printed):
        print("  (%d further violations with the same keys not written out)" % (len(new) - len(printed)))
    for l in lost[:2]:
        print("LOST shard=%d rc=%s\n%s" % (l["shard"], l["rc"], l["log_tail"]))
    print("%s tier=%s seed=%d cases=%d distinct_nontrivial=%d violations=%d known=%d inconclusive=%d wall=%.1fs" % (
        pid, tier, seed, evaluations, len(digests), len(new), sum(known_seen.values()),
        len(inconclusive), wall))
    if new:
        return 1
    if incon_reasons:
        print("INCONCLUSIVE property=%s reason=%s" % (pid, "; ".join(incon_reasons)))
        for i in inconclusive[:5]:
            print("   ", i["reason"][:300])
        return 2
    return 0


def main(argv):
    import argparse
    ap = argparse.ArgumentParser()
    ap.add_argument("pid")
    ap.add_argument("--tier", default=os.environ.get("VERIF_TIER", "quick"))
    ap.add_argument("--replay")
    ap.add_argument("--shards", type=int)
    ap.add_argument("--budget", type=float)
    a = ap.parse_args(argv)
    seed = int(os.environ.get("VERIF_SEED", "0"))
    if a.replay:
        with open(a.replay) as f:
            rp = json.load(f)
        seed = rp.get("seed", seed)
    return run_check(a.pid, a.tier, seed, a.replay, a.shards, a.budget)


if __name__ == "__main__":
    sys.exit(main(sys.argv[1:]))
