"""Regenerate the ANTLR parser from the working-tree grammar and load it beside the committed
one, so checks anchored in Modelica.g4 monitor what the working tree *builds* as well as what
it *ships*.  Comparison is on the serialised ATN, rule names and literal names (the committed
files are reformatted, textual comparison is useless)."""
import glob
import importlib.util
import os
import subprocess
import sys

REPO = os.environ.get("VERIF_REPO", "/repo")
NAMES = ("ModelicaLexer", "ModelicaParser", "ModelicaListener")


def regenerate(outdir):
    """-> None on failure (reason string second)."""
    g4 = os.path.join(REPO, "src", "pymoca", "Modelica.g4")
    jars = glob.glob(os.path.join(REPO, "antlr", "antlr-*-complete.jar"))
    if not jars or not os.path.exists(g4):
        return None, "jar or grammar missing"
    os.makedirs(outdir, exist_ok=True)
    p = subprocess.run(["java", "-cp", jars[0], "org.antlr.v4.Tool", "-Dlanguage=Python3",
                        "-o", outdir, "-Xexact-output-dir", g4],
                       capture_output=True, text=True, timeout=120)
    if p.returncode != 0 or not os.path.exists(os.path.join(outdir, "ModelicaParser.py")):
        return None, "antlr failed: " + (p.stderr or p.stdout)[-300:]
    return outdir, ""


def _load(dirpath, tag):
    """load the three generated modules from dirpath under private names."""
    mods = {}
    saved = {("pymoca.generated." + n): sys.modules.get("pymoca.generated." + n) for n in NAMES}
    import pymoca.generated  # noqa: F401  (package must exist for relative imports)
    try:
        for n in ("ModelicaLexer", "ModelicaParser", "ModelicaListener"):
            full = "pymoca.generated." + n
            spec = importlib.util.spec_from_file_location(full, os.path.join(dirpath, n + ".py"))
            m = importlib.util.module_from_spec(spec)
            sys.modules[full] = m
            spec.loader.exec_module(m)
            mods[n] = m
        # a private copy of pymoca.parser bound to these modules
        spec = importlib.util.spec_from_file_location(
            "pymoca.parser_" + tag, os.path.join(REPO, "src", "pymoca", "parser.py"))
        pm = importlib.util.module_from_spec(spec)
        sys.modules["pymoca.parser_" + tag] = pm
        spec.loader.exec_module(pm)
        mods["parser"] = pm
    finally:
        for k, v in saved.items():
            if v is None:
                sys.modules.pop(k, None)
            else:
                sys.modules[k] = v
    return mods


def signature(mods):
    P, L = mods["ModelicaParser"], mods["ModelicaLexer"]
    return (tuple(P.serializedATN()), tuple(P.ModelicaParser.ruleNames),
            tuple(P.ModelicaParser.literalNames), tuple(L.serializedATN()),
            tuple(L.ModelicaLexer.ruleNames))


def parser_builds(workdir):
    """-> list of (label, parse_function), info dict.  The committed build is always first."""
    import pymoca.parser as committed
    info = {"grammar_regenerated": False, "regenerated_equals_committed": None}
    builds = [("committed", committed.parse)]
    pre = os.path.join(workdir, "g4")
    if os.path.exists(os.path.join(pre, "ModelicaParser.py")):
        out, why = pre, ""
    elif os.path.exists(os.path.join(pre, "FAILED")):
        out, why = None, open(os.path.join(pre, "FAILED")).read()
    else:
        out, why = regenerate(pre)
        if out is None:
            os.makedirs(pre, exist_ok=True)
            open(os.path.join(pre, "FAILED"), "w").write(why)
    if out is None:
        info["regeneration_failed"] = why
        return builds, info
    info["grammar_regenerated"] = True
    try:
        regen = _load(out, "regen")
        comm = _load(os.path.join(REPO, "src", "pymoca", "generated"), "comm")
        same = signature(regen) == signature(comm)
    except Exception as e:  # generated code that does not import: the regenerated build is broken
        info["regeneration_failed"] = "load: %r" % (e,)
        return builds, info
    info["regenerated_equals_committed"] = same
    if not same:
        builds.append(("regenerated", regen["parser"].parse))
    return builds, info
