"""Generator of square, nonsingular DAE models with a known solution (for C14/C15/C16).

The generator first draws values for everything that is data for the residual (time, states,
inputs, parameters, constants) and for the unknowns w* (state derivatives and algebraic variables),
then builds equations that hold at w* and determine it uniquely: an affine system with a
diagonally dominant matrix, or a triangular system with explicit assignments, decorated with alias
chains, signed aliases, constant assignments, eliminable ('_'-prefixed) variables, factored
equations, if-equations and parameter expressions."""
import math

from . import mexpr
from .genflat import num, var

Q = 0.25     # all generated numbers are multiples of 0.25: sums/products stay exact in binary


def q(rng, lo, hi, nonzero=True):
    while True:
        v = rng.randint(int(lo / Q), int(hi / Q)) * Q
        if v != 0 or not nonzero:
            return v


class SolvGen:
    def __init__(self, rng, kind=None, ext=None, with_attrs=False, with_array=False):
        self.r, self.ext, self.with_attrs = rng, ext, with_attrs
        self.with_array = with_array     # two unknowns are the elements of an array xv[2] (C16, with expand_vectors)
        self.kind = kind or rng.choice(["affine", "affine", "triangular"])
        self.tags = {"system:" + self.kind}
        self.decls = []            # (prefix, type, name, attrs dict, value expr)
        self.val = {"time": q(rng, 0.25, 3)}
        self.unknowns = []         # names: der(s) / algebraic
        self.eqs = []              # mexpr equations ("eq", lhs, rhs) or ("if",...)
        self.alg, self.states, self.inputs, self.params, self.consts = [], [], [], [], []
        self.alias_info = []       # (alias name, target name, sign)
        self.ieqs = []
        self.affine = self.kind == "affine"

    def decl(self, name, prefix="", value=None, attrs=None, typ="Real"):
        self.decls.append((prefix, typ, name, dict(attrs or {}), value))

    def rand_attrs(self):
        r = self.r
        a = {}
        if not self.with_attrs:
            return a
        if r.random() < 0.5:
            a["min"] = num(q(r, -20, -5))
        if r.random() < 0.5:
            a["max"] = num(q(r, 5, 20))
        if r.random() < 0.4:
            a["nominal"] = num(q(r, 0.5, 50))
        if r.random() < 0.25:
            a["fixed"] = ("bool", r.random() < 0.6)
        return a

    def data_terms(self, k=2):
        """small affine expression of data (states, inputs, parameters, constants, time)."""
        r = self.r
        names = self.states + self.inputs + self.params + self.consts
        e = None
        for _ in range(r.randint(0, k)):
            n = "time" if r.random() < 0.1 else r.choice(names)
            t = ("bin", "*", num(q(r, -3, 3)), var(n))
            e = t if e is None else ("bin", "+", e, t)
        return e

    def build(self):
        r = self.r
        for i in range(r.randint(1, 2)):
            s = "s%d" % (i + 1)
            self.states.append(s)
            self.decl(s, attrs=self.rand_attrs())
            self.val[s] = q(r, -3, 3)
            self.unknowns.append("der(%s)" % s)
            self.val["der(%s)" % s] = q(r, -3, 3)
        for i in range(r.randint(0, 1)):
            u = "u%d" % (i + 1)
            self.inputs.append(u)
            self.decl(u, "input", attrs=self.rand_attrs())
            self.val[u] = q(r, -3, 3)
        for i in range(r.randint(1, 2)):
            p = "p%d" % (i + 1)
            self.params.append(p)
            v = q(r, 0.5, 4)
            self.decl(p, "parameter", value=num(v))
            self.val[p] = v
        if r.random() < 0.5:
            # parameter expression
            p0 = self.params[0]
            fwd = r.random() < 0.4
            if fwd:
                # an expression parameter that refers to an expression parameter declared after it
                self.decl("pr", "parameter", value=("bin", "+", ("bin", "*", num(3), var("pq")), num(1)))
            self.decl("pq", "parameter", value=("bin", "+", ("bin", "*", num(2), var(p0)), num(0.5)))
            self.val["pq"] = 2 * self.val[p0] + 0.5
            self.params.append("pq")
            if fwd:
                self.val["pr"] = 3 * self.val["pq"] + 1
                self.params += ["pr", "pr"]
                self.tags.add("parameter-expression:forward-reference")
            self.tags.add("parameter-expression")
        if r.random() < 0.4:
            v = q(r, 0.5, 4)
            self.decl("c1", "constant", value=num(v))
            self.val["c1"] = v
            self.consts.append("c1")
        for i in range(r.randint(1, 3)):
            a = "a%d" % (i + 1)
            self.alg.append(a)
            self.decl(a, attrs=self.rand_attrs())
            self.unknowns.append(a)
            self.val[a] = q(r, -3, 3)
        if self.with_array:
            # declared as one array (attributes, if any, apply to every element; never a start value)
            at = self.rand_attrs()
            at.pop("start", None)
            self.decl("xv[2]", attrs=at)
            for nm in ("xv[1]", "xv[2]"):
                self.alg.append(nm)
                self.unknowns.append(nm)
                self.val[nm] = q(r, -3, 3)
            # the value of the unexpanded vector symbol (used when expand_vectors is off)
            self.val["xv"] = [self.val["xv[1]"], self.val["xv[2]"]]
            self.tags.add("array-elements-as-unknowns")
        core_unknowns = list(self.unknowns)
        if self.affine:
            self.affine_core(core_unknowns)
        else:
            self.triangular_core(core_unknowns)
        # decorations
        for _ in range(getattr(self, "force_aliases", 0)):
            self.add_alias()
        for _ in range(r.randint(0, 4)):
            k = r.random()
            if k < 0.45:
                self.add_alias()
            elif k < 0.65:
                self.add_constant_assignment()
            elif k < 0.70:
                self.add_eliminable()
            elif k < 0.73:
                self.add_eliminable_state()
            elif k < 0.76:
                self.add_lookalike_literals()
            elif k < 0.8:
                self.add_anchored_chain()
            elif k < 0.9:
                self.add_late_alias()
            else:
                self.wrap_if()
        if r.random() < 0.2:
            # initial equation for a state (does not change the DAE solution set)
            s0 = r.choice(self.states)
            self.ieqs.append(("eq", var(s0), num(self.val[s0])))
            self.tags.add("initial-equation")
        if self.ext == "ext:contradictory-alias-signs":
            self.decl("za")
            self.decl("zb")
            self.val["za"] = self.val["zb"] = 0.0
            self.unknowns += ["za", "zb"]
            self.alg += ["za", "zb"]
            self.eqs.append(("eq", var("za"), var("zb")))
            self.eqs.append(("eq", var("za"), ("neg", var("zb"))))
            self.tags.add(self.ext)
        r.shuffle(self.eqs)
        return self

    def uexpr(self, name):
        return ("der", var(name[4:-1])) if name.startswith("der(") else var(name)

    def affine_core(self, unk):
        r = self.r
        n = len(unk)
        for k in range(n):
            lhs = None
            total = 0.0
            for j in range(n):
                if j == k:
                    c = r.choice([3, 4, 5, -3, -4, 6])
                elif r.random() < 0.5:
                    c = r.choice([1, -1, 0.5, -0.5])
                else:
                    continue
                t = ("bin", "*", num(c), self.uexpr(unk[j]))
                lhs = t if lhs is None else ("bin", "+", lhs, t)
                total += c * self.val[unk[j]]
            d = self.data_terms()
            if d is not None:
                lhs = ("bin", "+", lhs, d)
                total += float(mexpr.evaluate(d, self.val))
            if r.random() < 0.15:
                # factored form: c * (lhs - total) = 0
                f = r.choice([2, 4, -2, 0.5])
                self.eqs.append(("eq", ("bin", "*", num(f), ("bin", "-", lhs, num(total))), num(0)))
                self.tags.add("factored-equation")
            else:
                self.eqs.append(("eq", lhs, num(total)))

    def triangular_core(self, unk):
        r = self.r
        order = list(unk)
        r.shuffle(order)
        done = []
        for u in order:
            parts = []
            for pv in r.sample(done, min(len(done), r.randint(0, 2))):
                f = r.choice(["lin", "sq", "sin", "prod"])
                x = self.uexpr(pv)
                if f == "lin":
                    parts.append(("bin", "*", num(q(r, -2, 2)), x))
                elif f == "sq":
                    parts.append(("bin", "^", x, num(2)))
                elif f == "sin":
                    parts.append(("call", "sin", [x]))
                else:
                    parts.append(("bin", "*", x, var(r.choice(self.states + self.params))))
            d = self.data_terms(1)
            if d is not None:
                parts.append(d)
            rhs = None
            for p_ in parts:
                rhs = p_ if rhs is None else ("bin", "+", rhs, p_)
            base = float(mexpr.evaluate(rhs, self.val)) if rhs is not None else 0.0
            off = self.val[u] - base
            rhs = num(off) if rhs is None else ("bin", "+", rhs, num(off))
            self.eqs.append(("eq", self.uexpr(u), rhs))
            done.append(u)
        self.tags.add("nonlinear-triangular")

    def add_alias(self):
        r = self.r
        cands = self.alg + self.states + self.inputs + [a for a, _, _ in self.alias_info]
        if r.random() < 0.15:
            cands = [u for u in self.unknowns if u.startswith("der(")] or cands
        elif r.random() < 0.15 and (self.params or self.consts):
            # an alias chain anchored at a parameter or a constant (which must never be eliminated)
            cands = self.params + self.consts
        tgt = r.choice(cands)
        name = "b%d" % (len(self.alias_info) + 1)
        sign = r.choice([1, 1, -1])
        form = r.choice(["eq", "eq-swapped", "sum-zero"])
        if self.with_attrs and r.random() < 0.15:
            # an Integer member of the alias set, with whole-number bounds (the other members' bounds are fractional)
            at = {}
            if r.random() < 0.7:
                at["min"] = ("neg", num(r.randint(5, 20)))
            if r.random() < 0.7:
                at["max"] = num(r.randint(5, 20))
            self.decl(name, attrs=at, typ="Integer")
            self.tags.add("alias:integer-member")
        else:
            self.decl(name, attrs=self.rand_attrs_alias())
        self.val[name] = sign * self.val[tgt]
        self.unknowns.append(name)
        self.alg.append(name)
        t = self.uexpr(tgt)
        if form == "eq":
            e = ("eq", var(name), t if sign == 1 else ("neg", t))
        elif form == "eq-swapped":
            e = ("eq", t if sign == 1 else ("neg", t), var(name))
        else:
            e = ("eq", ("bin", "-" if sign == 1 else "+", var(name), t), num(0))
        self.eqs.append(e)
        self.alias_info.append((name, tgt, sign))
        self.tags.add("alias:%s:%s" % ("positive" if sign == 1 else "negative", form))
        if tgt.startswith("der("):
            self.tags.add("alias:of-derivative")
        elif tgt in self.states:
            self.tags.add("alias:of-state")
        elif tgt in self.inputs:
            self.tags.add("alias:of-input")
        elif tgt in self.params:
            self.tags.add("alias:of-parameter")
        elif tgt in self.consts:
            self.tags.add("alias:of-constant")
        elif tgt.startswith("b"):
            self.tags.add("alias:chain")

    def add_anchored_chain(self):
        """a = <anchor>; a = b (or b = a): a chain of two algebraic aliases hanging on something that must never be
        eliminated (parameter, constant, input, state)."""
        r = self.r
        ders = [u for u in self.unknowns if u.startswith("der(")]
        kas = [u for u in self.alg if u.startswith("k") and u[1:].isdigit()]     # variables of constant assignments
        anchor = r.choice(self.params + self.consts + self.inputs + self.states + ders + ders + kas + kas)
        n = sum(1 for d in self.decls if d[2].startswith("ca")) + 1
        a, b = "ca%d" % n, "cb%d" % n
        for nm in (a, b):
            self.decl(nm, attrs=self.rand_attrs_alias())
            self.val[nm] = self.val[anchor]
            self.unknowns.append(nm)
            self.alg.append(nm)
        self.eqs.append(("eq", var(a), self.uexpr(anchor)) if r.random() < 0.7 else ("eq", self.uexpr(anchor), var(a)))
        self.eqs.append(("eq", var(a), var(b)) if r.random() < 0.6 else ("eq", var(b), var(a)))
        self.alias_info += [(a, anchor, 1), (b, a, 1)]
        kind = ("parameter" if anchor in self.params else "constant" if anchor in self.consts else
                "input" if anchor in self.inputs else "derivative" if anchor in ders else
                "constant-assignment-variable" if anchor in kas else "state")
        self.tags.add("alias:anchored-chain:" + kind)
        self.want_aliases = True

    def add_late_alias(self):
        """an alias that only becomes visible in a later simplification pass: b = a; k = b - a (so k = 0 once b is
        replaced by a); a + k = -c (an alias equation a = -c once k is known to be the constant 0)."""
        r = self.r
        n = sum(1 for d in self.decls if d[2].startswith("lb")) + 1
        a = r.choice(self.alg)
        b, k, c = "lb%d" % n, "lk%d" % n, "lc%d" % n
        sign = r.choice([-1, -1, 1])
        for nm, v in ((b, self.val[a]), (k, 0.0), (c, sign * self.val[a])):
            self.decl(nm, attrs=self.rand_attrs_alias() if nm != k else None)
            self.val[nm] = v
            self.unknowns.append(nm)
        self.eqs.append(("eq", var(b), var(a)))
        self.eqs.append(("eq", var(k), ("bin", "-", var(b), var(a))))
        self.eqs.append(("eq", ("bin", "+", var(a), var(k)), ("neg", var(c)) if sign == -1 else var(c)))
        self.alg += [b, k, c]
        self.alias_info.append((b, a, 1))
        self.tags.add("alias:revealed-in-later-pass:%s" % ("negative" if sign == -1 else "positive"))
        self.late_alias = True

    def rand_attrs_alias(self):
        a = self.rand_attrs()
        if self.with_attrs and self.r.random() < 0.4:
            a["start"] = num(q(self.r, -4, 4))
        return a

    def add_constant_assignment(self):
        r = self.r
        name = "k%d" % (sum(1 for d in self.decls if d[2].startswith("k")) + 1)
        v = q(r, -5, 5)
        self.decl(name)
        self.val[name] = v
        self.unknowns.append(name)
        self.alg.append(name)
        form = r.choice(["eq", "plus-zero", "zero"])
        if form == "zero":
            self.val[name] = 0.0
            self.eqs.append(("eq", var(name), num(0)))
        elif form == "eq":
            self.eqs.append(("eq", var(name), num(v) if v >= 0 else ("neg", num(-v))))
        else:
            self.eqs.append(("eq", ("bin", "+", var(name), num(-v) if v <= 0 else ("neg", num(v))), num(0)))
        self.tags.add("constant-assignment:" + form)

    def add_eliminable(self, depth=0, through=None):
        r = self.r
        name = "_e%d" % (sum(1 for d in self.decls if d[2].startswith("_e")) + 1)
        src = r.choice(self.alg + self.states)
        earlier = [d[2] for d in self.decls if d[2].startswith("_e")]
        if through is not None:
            src = through
            self.tags.add("eliminable-variable:chain-of-%d" % (depth + 1))
        elif earlier and r.random() < 0.5:
            # chains of eliminable variables (_e3 defined through _e2 defined through _e1), in any equation order
            src = r.choice(earlier)
            self.tags.add("eliminable-variable:chain")
        e = ("bin", "+", ("bin", "*", num(q(r, -2, 2)), var(src)), num(q(r, -2, 2, nonzero=False)))
        self.decl(name)
        self.val[name] = float(mexpr.evaluate(e, self.val))
        self.unknowns.append(name)
        self.alg.append(name)
        # (members of a chain keep the plain form, so that whole chains are eliminated)
        will_chain = depth < 2 and r.random() < (0.35 if depth == 0 else 0.8)
        form = "eq" if (through is not None or src.startswith("_e") or will_chain) else r.choice(
            ["eq", "eq", "eq", "neg-lhs", "zero-lhs-minus", "zero-lhs-plus", "swapped"])
        if form == "eq":
            self.eqs.append(("eq", var(name), e))
        elif form == "neg-lhs":
            self.eqs.append(("eq", ("neg", var(name)), ("neg", e)))            # -_e = -(e)
        elif form == "zero-lhs-minus":
            self.eqs.append(("eq", num(0), ("bin", "-", var(name), e)))        # 0 = _e - (e)
        elif form == "zero-lhs-plus":
            self.eqs.append(("eq", num(0), ("bin", "+", var(name), ("neg", e))))   # 0 = _e + (-(e))
        else:
            self.eqs.append(("eq", e, var(name)))
        self.tags.add("eliminable-variable:form:" + form)
        self.tags.add("eliminable-variable")
        if will_chain:
            # continue the chain: the next eliminable variable is defined through this one
            self.add_eliminable(depth + 1, name)
            self.want_eliminable = True
        elif r.random() < 0.6:
            # the (last) eliminable variable is used by an equation that remains
            user = "wu%d" % (sum(1 for d in self.decls if d[2].startswith("wu")) + 1)
            c, d0 = q(r, -2, 2), q(r, -2, 2, nonzero=False)
            self.decl(user)
            self.val[user] = c * self.val[name] + d0
            self.unknowns.append(user)
            self.alg.append(user)
            self.eqs.append(("eq", var(user), ("bin", "+", ("bin", "*", num(c) if c >= 0 else ("neg", num(-c)), var(name)), num(d0) if d0 >= 0 else ("neg", num(-d0)))))
            self.tags.add("eliminable-variable:used-by-a-remaining-equation")

    def add_lookalike_literals(self):
        """two unknowns defined with literals that agree in their first six significant digits."""
        r = self.r
        n = sum(1 for d in self.decls if d[2].startswith("na")) + 1
        l1, l2 = r.choice([(1234567.0, 1234568.0), (155000.25, 155000.75), (101324.75, 101325.25)])
        a = r.choice([x for x in self.alg if not x.startswith(("_", "xv"))])
        c = q(r, -2, 2)
        for nm, lit_ in (("na%d" % n, l1), ("nb%d" % n, l2)):
            self.decl(nm)
            self.val[nm] = lit_ + c * self.val[a]
            self.unknowns.append(nm)
            self.alg.append(nm)
            self.eqs.append(("eq", var(nm), ("bin", "+", num(lit_), ("bin", "*", num(c) if c >= 0 else ("neg", num(-c)), var(a)))))
        self.tags.add("literals-differing-beyond-the-sixth-significant-digit")

    def add_eliminable_state(self):
        """an eliminable *differentiated* variable defined through an eliminable algebraic one whose own definition
        may come later:  _s = c1 * _ea + d1;  _ea = c2 * yq + d2;  der(_s) = c3 * a + d3;  ws = der(_s) + q.
        Eliminating _s turns der(_s) into c1 * der(_ea) (and _ea into a state); eliminating _ea turns that into
        c1 * c2 * der(yq), yq becoming the state.  The system stays regular: _s given -> _ea -> yq; a -> der(_s) -> ws."""
        r = self.r
        n = sum(1 for d in self.decls if d[2].startswith("_s")) + 1
        s_, ea, y, w = "_s%d" % n, "_ea%d" % n, "yq%d" % n, "ws%d" % n
        a = r.choice([x for x in self.alg if not x.startswith(("_", "xv"))])
        c1, c2, c3 = q(r, -3, 3), q(r, -3, 3), q(r, -3, 3)
        d1, d2, qv = q(r, -2, 2, nonzero=False), q(r, -2, 2, nonzero=False), q(r, -2, 2, nonzero=False)
        ds = q(r, -3, 3)
        self.val[s_] = q(r, -3, 3)
        self.val["der(%s)" % s_] = ds
        self.val[ea] = (self.val[s_] - d1) / c1
        self.val[y] = (self.val[ea] - d2) / c2
        self.val[w] = ds + qv
        d3 = ds - c3 * self.val[a]
        # derivatives of the variables that simplification may turn into states
        self.val["der(%s)" % ea] = ds / c1
        self.val["der(%s)" % y] = ds / (c1 * c2)
        for nm in (s_, ea, y, w):
            self.decl(nm)
        self.unknowns += ["der(%s)" % s_, ea, y, w]
        self.alg.append(w)

        def lit(v):
            return num(v) if v >= 0 else ("neg", num(-v))
        self.eqs.append(("eq", var(s_), ("bin", "+", ("bin", "*", lit(c1), var(ea)), lit(d1))))
        self.eqs.append(("eq", var(ea), ("bin", "+", ("bin", "*", lit(c2), var(y)), lit(d2))))
        self.eqs.append(("eq", ("der", var(s_)), ("bin", "+", ("bin", "*", lit(c3), var(a)), lit(d3))))
        self.eqs.append(("eq", var(w), ("bin", "+", ("der", var(s_)), lit(qv))))
        self.tags.add("eliminable-variable:differentiated-state-through-eliminable-algebraic")
        self.want_eliminable = True

    def wrap_if(self):
        r = self.r
        idx = [i for i, e in enumerate(self.eqs) if e[0] == "eq"]
        if not idx:
            return
        i = r.choice(idx)
        e = self.eqs[i]
        s = r.choice(self.states)
        cond = ("bin", ">", var(s), num(self.val[s] - 1.5))      # true at the data point, not a tie
        other = ("eq", e[1], ("bin", "+", e[2], num(1)))
        self.eqs[i] = ("if", [(cond, [e])], [other])
        self.affine = False
        self.tags.add("if-equation")

    def text(self):
        from .mflat import print_eq
        s = "model M\n"
        for prefix, typ, name, attrs, value in self.decls:
            s += "  %s%s %s" % (prefix + " " if prefix else "", typ, name)
            if attrs:
                s += "(" + ", ".join("%s = %s" % (k, mexpr.to_text(v)) for k, v in attrs.items()) + ")"
            if value is not None:
                s += " = " + mexpr.to_text(value)
            s += ";\n"
        if self.ieqs:
            s += "initial equation\n" + "".join(print_eq(e) for e in self.ieqs)
        s += "equation\n" + "".join(print_eq(e) for e in self.eqs) + "end M;\n"
        return s


OPTIONS = ["expand_vectors", "expand_mx", "resolve_parameter_values", "replace_parameter_expressions",
           "replace_constant_expressions", "eliminate_constant_assignments", "replace_parameter_values",
           "replace_constant_values", "eliminable_variable_expression", "factor_and_simplify_equations",
           "detect_aliases", "reduce_affine_expression"]


def option_subset(rng, k, affine):
    """covering design: case k forces one pair of options on, the rest random; preconditions honoured."""
    import itertools
    pairs = list(itertools.combinations(OPTIONS, 2))
    on = set(pairs[k % len(pairs)])
    for o in OPTIONS:
        if rng.random() < 0.25:
            on.add(o)
    if not affine:
        on.discard("reduce_affine_expression")
    if "eliminable_variable_expression" in on:
        on.add("expand_mx")
    opts = {}
    for o in OPTIONS:
        if o == "eliminable_variable_expression":
            opts[o] = r"_\w+" if o in on else None
        else:
            opts[o] = o in on
    opts["allow_derivative_aliases"] = rng.random() < 0.7
    if rng.random() < 0.15:
        opts["iterative_simplification"] = True
    return opts
