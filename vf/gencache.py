"""Models for the model-cache monitors (C19-C21): flat models with parameter-dependent attributes,
alias equations, delays, string parameters, loops and functions."""
from . import genflat, mflat
from .genflat import num, var

OPTION_SETS = [
    {},
    {"detect_aliases": True},
    {"expand_vectors": True},
    {"replace_constant_values": True, "eliminate_constant_assignments": True},
    {"replace_parameter_expressions": True},
    {"detect_aliases": True, "expand_vectors": True},
    {"resolve_parameter_values": True},
    {"eliminate_constant_assignments": True},
    {"replace_parameter_values": True},
]


def gen_model(rng, small=False):
    g = genflat.FlatGen(rng)
    req = [r for r in ("for", "func", "delay") if rng.random() < (0.25 if small else 0.45)]
    m = g.build(n_eq=rng.randint(1, 3) if small else rng.randint(2, 5), require=req)
    tags = set(g.tags)
    if not g.params and rng.random() < 0.5:
        # a model without any parameter: attributes that are constant expressions (10 / 4) are still expression nodes
        for v in m["vars"]:
            if v["type"] == "Real" and not v["dims"] and not v["prefixes"] and rng.random() < 0.6:
                v["attrs"][rng.choice(["max", "nominal", "start"])] = ("bin", "/", num(rng.randint(5, 20)), num(4))
                tags.add("attr:constant-expression")
        tags.add("model-without-parameters")
        return finish(rng, g, m, tags)
    if not g.params:
        g.decl("p1", prefixes=["parameter"], value=num(round(rng.uniform(0.5, 4), 2)))
        g.params.append("p1")
    p = g.params[0]
    product_only = rng.random() < 0.25
    if product_only and len(g.params) < 2:
        g.decl("pz", prefixes=["parameter"], value=num(round(rng.uniform(0.5, 4), 2)))
        g.params.append("pz")
    coef = rng.choice([2, 3, 0.5])
    # parameter-dependent and literal attributes
    for v in m["vars"]:
        if v["type"] == "Real" and not v["dims"] and not v["prefixes"] and rng.random() < 0.5:
            k = rng.random()
            if product_only:
                # the only parameter-dependent attributes of this model are products of two different parameters
                # (bilinear: affine in each parameter, not affine in the parameter vector)
                if k < 0.6:
                    v["attrs"][rng.choice(["max", "nominal"])] = ("bin", "*", var(g.params[0]), var(g.params[1]))
                    tags.add("attr:product-of-two-parameters")
                else:
                    v["attrs"]["start"] = num(rng.randint(0, 5))
                    tags.add("attr:literal")
            elif k < 0.4:
                v["attrs"]["min"] = ("neg", var(p))
                # (CasADi turns 2 * p into its own operation 'twice', other coefficients into a multiplication)
                v["attrs"]["max"] = ("bin", "+", ("bin", "*", num(coef), var(p)), num(1))
                tags.add("attr:affine-in-parameter")
            elif k < 0.6:
                v["attrs"]["nominal"] = ("bin", "*", var(p), var(p))
                tags.add("attr:non-affine-in-parameter")
            else:
                v["attrs"]["start"] = num(round(rng.uniform(-3, 3), 1)) if rng.random() < 0.5 else num(rng.randint(0, 5))
                tags.add("attr:literal")
    # an array parameter, used in an equation and (when the model has a delay) possibly in nothing else
    if rng.random() < 0.4:
        from .genflat import idx
        g.decl("pv", prefixes=["parameter"], dims=[2], value=("arr", [num(1.5), num(2.5)]))
        g.decl("xpv")
        m["eqs"].append(("eq", var("xpv"), ("bin", "*", idx("pv", 1), var(g.scalars[0]))))
        if rng.random() < 0.5:
            g.decl("ypv")
            m["eqs"].append(("eq", var("ypv"), ("call", "delay", [var(g.scalars[0]), ("bin", "+", idx("pv", 2), var(p))])))
            tags.add("delay-duration-of-array-parameter-element")
        tags.add("array-parameter")
    # a scalar declared after the arrays, and an array itself, with parameter-dependent attributes
    if rng.random() < 0.5 and not product_only:
        g.decl("xlate", attrs={"max": ("bin", "+", ("bin", "*", num(3), var(p)), num(1)), "min": ("neg", var(p))})
        m["eqs"].append(("eq", var("xlate"), ("bin", "+", var(g.scalars[0]), num(1))))
        tags.add("attr:on-scalar-declared-after-arrays")
    if rng.random() < 0.3:
        # a matrix variable whose attribute is a matrix parameter with all-different elements
        r_, c_ = rng.choice([(2, 3), (3, 2), (2, 2), (1, 3), (3, 1)])
        vals = [[num(round(1 + i * c_ + j + rng.random() / 2, 2)) for j in range(c_)] for i in range(r_)]
        g.decl("pm", prefixes=["parameter"], dims=[r_, c_], value=("arr", [("arr", row) for row in vals]))
        g.decl("Tm", dims=[r_, c_], attrs={rng.choice(["max", "nominal", "start"]): var("pm")})
        m["eqs"].append(("eq", var("Tm"), ("bin", "*", var("pm"), var(g.scalars[0]))))
        tags.add("attr:matrix-parameter-on-matrix-variable:%dx%d" % (r_, c_))
    if rng.random() < 0.3 and g.vectors and not product_only:
        for v in m["vars"]:
            if v["name"] == g.vectors[0]:
                v["attrs"]["max"] = ("bin", "*", num(4), var(p))
                tags.add("attr:parameter-dependent-on-array")
    return finish(rng, g, m, tags)


def finish(rng, g, m, tags):
    # alias equations
    for i in range(rng.randint(0, 2)):
        nm = "al%d" % (i + 1)
        tgt = rng.choice(g.scalars)
        sign = rng.choice([1, -1])
        g.decl(nm, attrs={"max": num(rng.randint(5, 20))} if rng.random() < 0.5 else None)
        m["eqs"].append(("eq", var(nm), var(tgt) if sign == 1 else ("neg", var(tgt))))
        tags.add("alias-equation:" + ("positive" if sign == 1 else "negative"))
    if rng.random() < 0.4:
        # a constant assignment: with eliminate_constant_assignments the variable becomes a model constant whose
        # value is a constant expression node, not a number
        kattrs = None
        if g.params and rng.random() < 0.5:
            # with eliminate_constant_assignments the variable takes its attributes along into the constants list
            pa, pb = g.params[0], g.params[-1]
            kattrs = {"max": rng.choice([("bin", "*", var(pa), var(pb)), ("bin", "+", ("bin", "*", num(3), var(pa)), num(1))])}
            tags.add("attr:parameter-dependent-on-constant-assignment-variable")
        g.decl("kc1", attrs=kattrs)
        v = round(rng.uniform(1, 9), 1)
        m["eqs"].append(("eq", var("kc1"), num(v)))
        tags.add("constant-assignment-equation")
    if rng.random() < 0.4:
        g.decl("sp", "String", prefixes=["parameter"], value=("str", "mode%d" % rng.randint(0, 9)))
        tags.add("string-parameter")
    if rng.random() < 0.2:
        g.decl("sc", "String", prefixes=["constant"], value=("str", "k%d" % rng.randint(0, 9)))
        tags.add("string-constant")
    return m, mflat.print_model(m), tags
