"""Hierarchical Modelica libraries with a reference flattener (independent of pymoca).

Description (plain dicts/lists, serialisable):
  lib   = {"classes": [cls...]}
  cls   = {"name", "kind": model|class|connector|package|type, "alias": None|{"base": typename, "mods": {attr: expr}},
           "extends": [{"name": dotted, "mods": [mod...]}], "comps": [comp...], "classes": [cls...],
           "eqs": [eq...], "ieqs": [eq...], "connects": [(ref, ref)], "consts": (same as comps with prefix constant)}
  comp  = {"name", "type": dotted, "prefixes": [...], "dims": [...], "mods": [mod...], "value": expr|None}
  mod   = {"path": [sub-component names...], "attr": None|"start"|..., "expr": expr, "spelling": "nested"|"dotted"|"mixed"}
Expressions are mexpr tuples; ('var', 'a.b.x') is a dotted reference relative to the class in
which it is written.
"""
import copy as _copy

import numpy as np

from . import mexpr
from .mflat import print_eq

BUILTIN = ("Real", "Integer", "Boolean", "String")
ATTRS = ("start", "min", "max", "nominal", "fixed", "unit")


# ---------------------------------------------------------------------------------------------
# printing
# ---------------------------------------------------------------------------------------------
def P(e):
    return mexpr.to_text(e)


def print_mods(mods):
    """group modifications of one component / extends clause into one argument list."""
    if not mods:
        return ""
    args = []
    # group by full path so that several attributes of one target share parentheses
    groups = []
    for m in mods:
        key = (tuple(m["path"]), m.get("spelling", "mixed"))
        for g in groups:
            if g[0] == key and m["attr"] is not None and all(x["attr"] is not None for x in g[1]):
                g[1].append(m)
                break
        else:
            groups.append((key, [m]))
    for (path, spelling), ms in groups:
        path = list(path)
        if ms[0]["attr"] is None:
            m = ms[0]
            if not path:
                raise ValueError("value modification needs a path here")
            if spelling == "nested":
                s = "%s = %s" % (path[-1], P(m["expr"]))
                for p in reversed(path[:-1]):
                    s = "%s(%s)" % (p, s)
            else:
                s = "%s = %s" % (".".join(path), P(m["expr"]))
            args.append(s)
            continue
        inner = ", ".join("%s = %s" % (m["attr"], P(m["expr"])) for m in ms)
        if not path:
            args.append(inner)          # attributes of the component itself
            continue
        if spelling == "nested":
            s = "%s(%s)" % (path[-1], inner)
            for p in reversed(path[:-1]):
                s = "%s(%s)" % (p, s)
            args.append(s)
        elif spelling == "dotted":
            for m in ms:
                args.append("%s.%s = %s" % (".".join(path), m["attr"], P(m["expr"])))
        else:  # mixed: dotted component path, nested attribute list at the last level
            args.append("%s(%s)" % (".".join(path), inner))
    return "(" + ", ".join(args) + ")"


def print_comp(c, ind):
    s = ind
    if c.get("prefixes"):
        s += " ".join(c["prefixes"]) + " "
    s += c["type"] + " " + c["name"]
    if c.get("dims"):
        s += "[" + ", ".join(str(d) for d in c["dims"]) + "]"
    s += print_mods(c.get("mods") or [])
    if c.get("value") is not None:
        s += " = " + P(c["value"])
    return s + ";\n"


def print_class(c, ind=""):
    if c.get("alias"):
        a = c["alias"]
        mods = ""
        if a.get("mods"):
            mods = "(" + ", ".join("%s = %s" % (k, P(v)) for k, v in a["mods"].items()) + ")"
        return "%stype %s = %s%s;\n" % (ind, c["name"], a["base"], mods)
    s = "%s%s %s\n" % (ind, c["kind"], c["name"])
    i2 = ind + "  "
    for imp in c.get("imports", []):
        s += "%simport %s;\n" % (i2, imp)
    for e in c.get("extends", []):
        s += "%sextends %s%s;\n" % (i2, e["name"], print_mods(e.get("mods") or []))
    for n in c.get("classes", []):
        s += print_class(n, i2)
    for comp in c.get("comps", []):
        s += print_comp(comp, i2)
    if c.get("ieqs"):
        s += ind + "initial equation\n" + "".join(print_eq(e, i2) for e in c["ieqs"])
    if c.get("eqs") or c.get("connects"):
        s += ind + "equation\n" + "".join(print_eq(e, i2) for e in c.get("eqs", []))
        for a, b in c.get("connects", []):
            s += "%sconnect(%s, %s);\n" % (i2, a, b)
    return s + "%send %s;\n" % (ind, c["name"])


def print_library(lib, within=None):
    s = "within %s;\n" % within if within else ""
    return s + "\n".join(print_class(c) for c in lib["classes"])


# ---------------------------------------------------------------------------------------------
# lookup
# ---------------------------------------------------------------------------------------------
class Index:
    """parent links and lexical lookup over a library description."""

    def __init__(self, lib):
        self.lib = lib
        self.parent = {}
        self.root = {"name": None, "kind": "root", "classes": lib["classes"]}
        self._link(self.root)

    def _link(self, c):
        for n in c.get("classes", []):
            self.parent[id(n)] = c
            self._link(n)

    def full_name(self, c):
        parts = []
        while c is not self.root and c is not None:
            parts.append(c["name"])
            c = self.parent.get(id(c))
        return ".".join(reversed(parts))

    def nested(self, c, name, seen=None, inherit=True):
        """class `name` declared in c or (inherit=True) inherited by c."""
        for n in c.get("classes", []):
            if n["name"] == name:
                return n
        if not inherit:
            return None
        seen = seen or set()
        if id(c) in seen:
            return None
        seen.add(id(c))
        for e in c.get("extends", []):
            b = self.lookup(e["name"], c, for_extends=True)
            if b is not None:
                r = self.nested(b, name, seen)
                if r is not None:
                    return r
        return None

    def lookup(self, dotted, scope, for_extends=False):
        """lexical lookup.  for_extends: the name of a base class is not looked up among the
        classes inherited by the extending class itself."""
        parts = dotted.split(".")
        if parts[0] in BUILTIN:
            return None
        c = scope
        first = None
        while c is not None:
            if c is self.root:
                first = next((n for n in c["classes"] if n["name"] == parts[0]), None)
            else:
                first = self.nested(c, parts[0], inherit=not (for_extends and c is scope))
            if first is not None:
                break
            c = self.parent.get(id(c)) if c is not self.root else None
        if first is None:
            return None
        cur = first
        for p in parts[1:]:
            cur = self.nested(cur, p)
            if cur is None:
                return None
        return cur


def elementary(idx, typename, scope):
    """-> (base builtin type, [alias mods low->high priority]) or None if class-typed."""
    if typename in BUILTIN:
        return typename, []
    c = idx.lookup(typename, scope)
    if c is None:
        raise KeyError("type %s not found from %s" % (typename, scope.get("name")))
    if c.get("alias"):
        r = elementary(idx, c["alias"]["base"], idx.parent[id(c)])
        if r is None:
            return None
        base, mods = r
        return base, mods + [dict(c["alias"].get("mods") or {})]
    return None


# ---------------------------------------------------------------------------------------------
# reference instantiation
# ---------------------------------------------------------------------------------------------
class Flat:
    def __init__(self):
        self.vars = {}        # flat name -> {"type","prefixes","dims","attrs": {attr: (expr, scope)}, "value": (expr, scope)|None}
        self.order = []
        self.eqs = []         # (eq node, scope prefix, initial?)
        self.connects = []    # (refA, refB, scope prefix)
        self.connectors = {}  # flat instance name of connector components -> (class, inside?) filled by caller


def members(idx, cls, seen=None):
    """ordered members of cls incl. inherited: list of [comp, declaring class, extends_mods (low->high)]."""
    out = []
    seen = seen or set()
    if id(cls) in seen:
        raise RecursionError("extends cycle")
    seen = seen | {id(cls)}
    for e in cls.get("extends", []):
        b = idx.lookup(e["name"], cls, for_extends=True)
        if b is None:
            raise KeyError("base %s not found" % e["name"])
        for comp, decl, emods in members(idx, b, seen):
            mine = [m for m in (e.get("mods") or []) if m["path"] and m["path"][0] == comp["name"]]
            entry = [comp, decl, emods + [(m, cls) for m in mine]]
            # a later declaration of the same name replaces the earlier one
            out = [x for x in out if x[0]["name"] != comp["name"]] + [entry]
    for comp in cls.get("comps", []):
        out = [x for x in out if x[0]["name"] != comp["name"]] + [[comp, cls, []]]
    return out


def class_equations(idx, cls, seen=None):
    """(eq, initial) of cls incl. inherited ones (bases first)."""
    seen = seen or set()
    if id(cls) in seen:
        return [], []
    seen = seen | {id(cls)}
    eqs, conns = [], []
    for e in cls.get("extends", []):
        b = idx.lookup(e["name"], cls, for_extends=True)
        be, bc = class_equations(idx, b, seen)
        eqs += be
        conns += bc
    eqs += [(q, False) for q in cls.get("eqs", [])] + [(q, True) for q in cls.get("ieqs", [])]
    conns += list(cls.get("connects", []))
    return eqs, conns


def instantiate(idx, cls, prefix="", outer=(), top=True, flat=None, outer_dims=()):
    """outer: modifications from enclosing levels, low->high priority:
    (path list, attr, expr, scope prefix)."""
    flat = flat or Flat()
    for comp, decl, emods in members(idx, cls):
        name = comp["name"]
        # modifications that apply to this component, low -> high priority
        mods = []
        for m in comp.get("mods") or []:
            mods.append((list(m["path"]), m["attr"], m["expr"], prefix))
        for m, writer in emods:
            mods.append((list(m["path"][1:]), m["attr"], m["expr"], prefix))
        for (path, attr, expr, scope) in outer:
            if path and path[0] == name:
                mods.append((path[1:], attr, expr, scope))
        el = elementary(idx, comp["type"], decl)
        dims = list(outer_dims) + list(comp.get("dims") or [])
        if el is not None:
            base, alias_mods = el
            attrs, value = {}, None
            for am in alias_mods:
                for a, e in am.items():
                    attrs[a] = (e, "")
            if comp.get("value") is not None:
                value = (comp["value"], prefix)
            for (path, attr, expr, scope) in mods:
                if path:
                    raise KeyError("modification of sub-component %s of elementary %s" % (path, name))
                if attr is None:
                    value = (expr, scope)
                else:
                    attrs[attr] = (expr, scope)
            pf = [p for p in comp.get("prefixes") or [] if top or p not in ("input", "output")]
            flat.vars[prefix + name] = {"type": base, "prefixes": pf, "dims": dims, "attrs": attrs, "value": value}
            flat.order.append(prefix + name)
        else:
            sub = idx.lookup(comp["type"], decl)
            if sub is None:
                raise KeyError("class %s not found" % comp["type"])
            for (path, attr, expr, scope) in mods:
                if not path:
                    raise KeyError("attribute/value modification on class-typed component %s" % name)
            if sub["kind"] == "connector":
                flat.connectors[prefix + name] = sub
            instantiate(idx, sub, prefix + name + ".", mods, False, flat, dims)
    eqs, conns = class_equations(idx, cls)
    for q, ini in eqs:
        flat.eqs.append((q, prefix, ini))
    for a, b in conns:
        flat.connects.append((a, b, prefix))
    return flat


def rename(e, scope, names):
    """dotted reference relative to `scope` -> flat name (when it denotes a flat variable)."""
    t = e[0]
    if t == "var":
        full = scope + e[1]
        return ("var", full if full in names else e[1])
    if t == "idx":
        full = scope + e[1]
        return ("idx", full if full in names else e[1], [x if x[0] in ("colon",) else rename(x, scope, names) for x in e[2]])
    if t == "bin":
        return ("bin", e[1], rename(e[2], scope, names), rename(e[3], scope, names))
    if t in ("neg", "pos", "not", "der"):
        return (t, rename(e[1], scope, names))
    if t == "if":
        return ("if", [(rename(c, scope, names), rename(x, scope, names)) for c, x in e[1]], rename(e[2], scope, names))
    if t == "call":
        return ("call", e[1], [rename(a, scope, names) for a in e[2]])
    if t == "arr":
        return ("arr", [rename(a, scope, names) for a in e[1]])
    return e


def flat_equations(flat):
    """reference flat equations (value bindings of non-parameters included), as (lhs, rhs, initial)."""
    names = set(flat.vars)
    out = []
    for q, scope, ini in flat.eqs:
        if q[0] != "eq":
            raise ValueError("only simple equations in hierarchical libraries")
        out.append((rename(q[1], scope, names), rename(q[2], scope, names), ini))
    for n in flat.order:
        v = flat.vars[n]
        if v["value"] is not None and not (set(v["prefixes"]) & {"parameter", "constant"}):
            e, scope = v["value"]
            out.append((("var", n), rename(e, scope, names), False))
    return out


def flattenable_classes(lib):
    idx = Index(lib)
    out = []

    def walk(cs):
        for c in cs:
            if c["kind"] in ("model", "class") and not c.get("alias"):
                out.append(idx.full_name(c))
            walk(c.get("classes", []))
    walk(lib["classes"])
    return out


def find_class(lib, dotted):
    idx = Index(lib)
    return idx, idx.lookup(dotted, idx.root)


# ---------------------------------------------------------------------------------------------
# generator
# ---------------------------------------------------------------------------------------------
def num(v):
    return ("num", v)


def var(n):
    return ("var", n)


class LibGen:
    """profile: 'hier' (C07), 'mods' (C08), 'flatten' (C05/C06/C01: a mixture)."""

    def __init__(self, rng, profile="hier", ext=None):
        self.r, self.profile, self.ext = rng, profile, ext
        self.tags = set()
        self.lib = {"classes": []}
        self.info = {}       # class full name -> {"leaves": [(relative dotted name, type, is_param)], "cls": cls}
        self.counter = 0

    def fresh(self, prefix):
        self.counter += 1
        return "%s%d" % (prefix, self.counter)

    # -- elementary component ----------------------------------------------------------------------
    def elem_comp(self, name, types, allow_prefix=True, params_in_scope=()):
        r = self.r
        t = r.choice(types)
        pf = []
        if allow_prefix:
            k = r.random()
            if k < 0.2:
                pf = ["parameter"]
            elif k < 0.27:
                pf = ["constant"]
            elif k < 0.34:
                pf = ["input"]
            elif k < 0.41:
                pf = ["output"]
            elif k < 0.46:
                pf = ["discrete"]
            elif k < 0.52:
                # variability and causality together (the variability keyword comes first)
                pf = [r.choice(["discrete", "parameter"]), r.choice(["input", "output"])]
        c = {"name": name, "type": t, "prefixes": pf, "dims": [], "mods": [], "value": None}
        bt = self.base_of.get(t, t) if hasattr(self, "base_of") else t
        base_real = bt not in ("Integer", "Boolean")
        if base_real and r.random() < 0.15 and not pf:
            c["dims"] = [r.randint(2, 3)]
            self.tags.add("array-of-scalars")
        if set(pf) & {"parameter", "constant"}:
            if bt == "Boolean":
                c["value"] = ("bool", r.random() < 0.5)
            elif bt == "Integer":
                c["value"] = num(r.randint(1, 9))
            else:
                c["value"] = num(round(r.uniform(0.5, 9), 2))
        elif base_real and r.random() < 0.3 and not c["dims"]:
            c["mods"].append({"path": [], "attr": "start", "expr": num(round(r.uniform(-3, 3), 1)) if r.random() < 0.5 else num(r.randint(0, 5)), "spelling": "mixed"})
            self.tags.add("declaration-attribute")
        for p in pf:
            self.tags.add("prefix:" + p)
        return c

    def alias_type(self, name):
        r = self.r
        base = r.choice(["Real", "Real", "Integer", "Boolean"])
        mods = {}
        if base == "Real":
            if r.random() < 0.6:
                mods["min"] = num(r.randint(-9, 0))
            if r.random() < 0.4:
                mods["nominal"] = num(r.randint(1, 50))
            if r.random() < 0.3:
                mods["unit"] = ("str", r.choice(["m", "kg", "s", "V"]))
        self.tags.add("type-alias:" + base)
        return {"name": name, "kind": "type", "alias": {"base": base, "mods": mods}}

    # -- equations ----------------------------------------------------------------------------------
    def equations_for(self, cls_leaves, n):
        """simple well-conditioned equations over the given relative leaf names (Real, scalar)."""
        r = self.r
        reals = [nm for nm, t, par, dims in cls_leaves if t == "Real" and not dims]
        unk = [nm for nm, t, par, dims in cls_leaves if t == "Real" and not par and not dims]
        arrays = [(nm, dims) for nm, t, par, dims in cls_leaves if t == "Real" and len(dims) == 1]
        subs = [nm for nm, t, par, dims in cls_leaves if t == "Integer" and par and nm.split(".")[-1].startswith("ks")]
        eqs = []
        if not unk:
            return eqs
        for _ in range(n):
            lhs_name = r.choice(unk)
            lhs = var(lhs_name)
            if r.random() < 0.3:
                lhs = ("der", lhs)
                self.tags.add("eq:der")
            terms = None
            for _k in range(r.randint(1, 3)):
                if arrays and r.random() < 0.3:
                    # an element of an array of scalars, subscripted by a literal or by an Integer parameter
                    anm, adims = r.choice(arrays)
                    if subs and r.random() < 0.6:
                        t = ("idx", anm, [var(r.choice(subs))])
                        self.tags.add("eq:subscript-is-a-parameter-reference")
                    else:
                        t = ("idx", anm, [num(r.randint(1, adims[0]))])
                        self.tags.add("eq:array-element")
                elif reals and r.random() < 0.8:
                    nm = r.choice(reals)
                    t = ("bin", "*", num(r.randint(2, 7)), var(nm)) if r.random() < 0.6 else var(nm)
                    if "." in nm:
                        self.tags.add("eq:sub-component-reference")
                else:
                    t = num(round(r.uniform(0.5, 5), 1))
                terms = t if terms is None else ("bin", r.choice("+-"), terms, t)
            eqs.append(("eq", lhs, terms))
        return eqs

    # -- classes ---------------------------------------------------------------------------------------
    def leaves_of(self, cls_full):
        return self.info[cls_full]["leaves"]

    def make_model(self, name, usable, elem_types, depth_budget, bases_ok=True, n_own=None):
        """usable: list of (type name as written from here, full name) of class-typed candidates.
        -> (class description, leaves [(relative name, base type, is_param, dims)], depth)"""
        r = self.r
        cls = {"name": name, "kind": "model", "alias": None, "extends": [], "comps": [], "classes": [],
               "eqs": [], "ieqs": [], "connects": []}
        leaves, used_names, depth = [], set(), 1
        if bases_ok and usable and r.random() < 0.45:
            nb = 1 if r.random() < 0.75 else 2
            cand = list(usable)
            r.shuffle(cand)
            for written, full in cand:
                if len(cls["extends"]) >= nb:
                    break
                bl = self.leaves_of(full)
                top_names = {l[0].split(".")[0] for l in bl}
                if top_names & used_names or self.info[full]["depth"] > depth_budget:
                    continue
                cls["extends"].append({"name": written, "mods": []})
                used_names |= top_names
                leaves += list(bl)
                depth = max(depth, self.info[full]["depth"])
                self.tags.add("extends")
                if self.info[full]["has_extends"]:
                    self.tags.add("extends-chain")
            if len(cls["extends"]) == 2:
                self.tags.add("multiple-extends")
        n_own = r.randint(1, 3) if n_own is None else n_own
        for _ in range(n_own):
            nm = self.fresh(r.choice("xyzwq"))
            c = self.elem_comp(nm, elem_types)
            cls["comps"].append(c)
            used_names.add(nm)
            et = c["type"]
            leaves.append((nm, self.base_of.get(et, et), bool(set(c["prefixes"]) & {"parameter", "constant"}), c["dims"]))
        if usable and depth_budget > 1:
            for _ in range(r.randint(0, 2)):
                written, full = r.choice(usable)
                if self.info[full]["depth"] + 1 > depth_budget:
                    continue
                nm = self.fresh(r.choice("abcmn"))
                if any(c2["type"] == written for c2 in cls["comps"]):
                    self.tags.add("multiple-instances-of-one-class")
                cls["comps"].append({"name": nm, "type": written, "prefixes": [], "dims": [], "mods": [], "value": None})
                for l in self.leaves_of(full):
                    leaves.append((nm + "." + l[0], l[1], l[2], l[3]))
                depth = max(depth, self.info[full]["depth"] + 1)
                self.tags.add("class-typed-component")
        if any(t == "Real" and len(dims) == 1 for _, t, _, dims in leaves) and r.random() < 0.6:
            ks = self.fresh("ks")
            cls["comps"].append({"name": ks, "type": "Integer", "prefixes": ["parameter"], "dims": [], "mods": [],
                                 "value": num(r.randint(1, 2))})
            leaves.append((ks, "Integer", True, []))
        cls["eqs"] = self.equations_for(leaves, r.randint(1, 3))
        if r.random() < 0.2:
            cls["ieqs"] = self.equations_for(leaves, 1)
        return cls, leaves, depth

    def add_component_of(self, cls, leaves, written, full, letter="s"):
        nm = self.fresh(letter)
        cls["comps"].append({"name": nm, "type": written, "prefixes": [], "dims": [], "mods": [], "value": None})
        for l in self.leaves_of(full):
            leaves.append((nm + "." + l[0], l[1], l[2], l[3]))
        return nm

    def build(self):
        r = self.r
        self.base_of = {}          # alias type written name -> builtin base
        lib = self.lib
        elem_types = ["Real", "Real", "Real", "Integer", "Boolean"]
        for _ in range(r.randint(0, 2)):
            t = self.alias_type(self.fresh("T"))
            lib["classes"].append(t)
            self.base_of[t["name"]] = t["alias"]["base"]
            elem_types.append(t["name"])
        usable = []               # (written, full) visible from the top level
        max_depth = 4
        for i in range(r.randint(2, 6)):
            name = self.fresh("C")
            cls, leaves, depth = self.make_model(name, usable, elem_types, max_depth)
            if r.random() < 0.35:
                # nested class definition used by sibling components
                iname = self.fresh("N")
                inner, ileaves, idepth = self.make_model(iname, usable, elem_types, max_depth - 1, n_own=r.randint(1, 2))
                cls["classes"].append(inner)
                self.info[name + "." + iname] = {"leaves": ileaves, "cls": inner, "depth": idepth,
                                                 "has_extends": bool(inner["extends"])}
                self.tags.add("nested-class-definition")
                for _ in range(r.randint(1, 2)):
                    self.add_component_of(cls, leaves, iname, name + "." + iname)
                    depth = max(depth, idepth + 1)
                    self.tags.add("nested-class-used-by-sibling-component")
                if r.random() < 0.5 and usable:
                    # a second nested class extending a class defined in the enclosing (top-level) scope
                    w, f = r.choice(usable)
                    if self.info[f]["depth"] + 1 <= max_depth:
                        jname = self.fresh("N")
                        j = {"name": jname, "kind": "model", "alias": None, "extends": [{"name": w, "mods": []}],
                             "comps": [], "classes": [], "eqs": [], "ieqs": [], "connects": []}
                        jl = list(self.leaves_of(f))
                        extra = self.elem_comp(self.fresh("x"), ["Real"], allow_prefix=False)
                        j["comps"].append(extra)
                        jl.append((extra["name"], "Real", False, extra["dims"]))
                        j["eqs"] = self.equations_for(jl, 1)
                        cls["classes"].append(j)
                        self.info[name + "." + jname] = {"leaves": jl, "cls": j, "depth": self.info[f]["depth"],
                                                         "has_extends": True}
                        self.add_component_of(cls, leaves, jname, name + "." + jname)
                        depth = max(depth, self.info[f]["depth"] + 1)
                        self.tags.add("extends-class-from-enclosing-scope")
                cls["eqs"] += self.equations_for(leaves, 1)
            lib["classes"].append(cls)
            self.info[name] = {"leaves": leaves, "cls": cls, "depth": depth, "has_extends": bool(cls["extends"])}
            usable.append((name, name))
            self.tags.add("depth:%d" % depth)
        if r.random() < 0.3:
            # parallel sub-libraries: two packages, each with its own Base and a Source that extends "Base" by the
            # relative name; one model uses both Sources
            k = self.fresh("")

            def comp(n, t="Real"):
                return {"name": n, "type": t, "prefixes": [], "dims": [], "mods": [], "value": None}
            pk = []
            for pname, leafs in (("El" + k, [("v", "Real")]), ("Th" + k, [("T", "Real"), ("hot", "Boolean")])):
                base = {"name": "Base" + k, "kind": "model", "alias": None, "extends": [], "classes": [], "ieqs": [], "connects": [],
                        "comps": [comp(n, t) for n, t in leafs], "eqs": [("eq", var(leafs[0][0]), num(r.randint(2, 9)))]}
                src = {"name": "Source" + k, "kind": "model", "alias": None, "extends": [{"name": "Base" + k, "mods": []}], "classes": [],
                       "ieqs": [], "connects": [], "comps": [comp("q")],
                       "eqs": [("eq", var("q"), ("bin", "*", num(r.randint(2, 9)), var(leafs[0][0])))]}
                pk.append({"name": pname, "kind": "package", "alias": None, "extends": [], "classes": [base, src], "comps": [],
                           "eqs": [], "ieqs": [], "connects": []})
                self.info["%s.Base%s" % (pname, k)] = {"leaves": [], "cls": base, "depth": 1, "has_extends": False}
                self.info["%s.Source%s" % (pname, k)] = {"leaves": [], "cls": src, "depth": 2, "has_extends": True}
            order = [("es", "El%s.Source%s" % (k, k)), ("ts", "Th%s.Source%s" % (k, k))]
            r.shuffle(order)
            par = {"name": "Par" + k, "kind": "model", "alias": None, "extends": [], "classes": [], "ieqs": [], "connects": [],
                   "comps": [comp(n, t) for n, t in order] + [comp("s")],
                   "eqs": [("eq", var("s"), ("bin", "+", var("es.q"), var("ts.q")))]}
            lib["classes"] += pk + [par]
            self.info["Par" + k] = {"leaves": [], "cls": par, "depth": 3, "has_extends": False}
            self.tags.add("parallel-sub-libraries-with-equal-class-names")
        self.ext_classes = {}
        if self.ext in ("ext:base-in-foreign-scope", "ext:scope-shadowing"):
            k = self.fresh("")
            inner = {"name": "Inner" + k, "kind": "model", "alias": None, "extends": [], "classes": [], "ieqs": [], "connects": [],
                     "comps": [{"name": "v", "type": "Real", "prefixes": [], "dims": [], "mods": [], "value": None}],
                     "eqs": [("eq", var("v"), num(r.randint(2, 9)))]}
            base = {"name": "Base" + k, "kind": "model", "alias": None, "extends": [], "classes": [], "ieqs": [], "connects": [],
                    "comps": [{"name": "i", "type": "Inner" + k, "prefixes": [], "dims": [], "mods": [], "value": None},
                              {"name": "b", "type": "Real", "prefixes": [], "dims": [], "mods": [], "value": None}],
                    "eqs": [("eq", var("b"), ("bin", "*", num(2), var("i.v")))]}
            outer = {"name": "Outer" + k, "kind": "model", "alias": None, "extends": [], "classes": [inner, base], "comps": [],
                     "eqs": [], "ieqs": [], "connects": []}
            d = {"name": "D" + k, "kind": "model", "alias": None, "extends": [{"name": "Outer%s.Base%s" % (k, k), "mods": []}],
                 "classes": [], "comps": [{"name": "z", "type": "Real", "prefixes": [], "dims": [], "mods": [], "value": None}],
                 "eqs": [("eq", var("z"), var("b"))], "ieqs": [], "connects": []}
            lib["classes"] += [outer, d]
            if self.ext == "ext:scope-shadowing":
                shadow = {"name": "Inner" + k, "kind": "model", "alias": None, "extends": [], "classes": [], "ieqs": [], "connects": [],
                          "comps": [{"name": "w", "type": "Real", "prefixes": [], "dims": [], "mods": [], "value": None}],
                          "eqs": [("eq", var("w"), num(1))]}
                lib["classes"].append(shadow)
                self.info["Inner" + k] = {"leaves": [("w", "Real", False, [])], "cls": shadow, "depth": 1, "has_extends": False}
            self.info["Outer" + k] = {"leaves": [], "cls": outer, "depth": 1, "has_extends": False}
            self.info["Outer%s.Inner%s" % (k, k)] = {"leaves": [("v", "Real", False, [])], "cls": inner, "depth": 1, "has_extends": False}
            self.info["Outer%s.Base%s" % (k, k)] = {"leaves": [], "cls": base, "depth": 2, "has_extends": False}
            self.info["D" + k] = {"leaves": [], "cls": d, "depth": 2, "has_extends": True}
            self.ext_classes["D" + k] = self.ext
            self.tags.add(self.ext)
        if self.profile in ("mods",):
            self.add_modifications()
        return lib

    # -- modifications (C08) ----------------------------------------------------------------------------
    def add_modifications(self):
        pass
