"""Generator of flat models (mflat descriptions) for the CasADi-backend monitors."""
import numpy as np

from . import mexpr

CORE_F1 = ("sin", "cos", "tan", "sinh", "cosh", "tanh", "exp", "log", "log10", "sqrt", "abs",
           "sign", "floor", "ceil")
EXT_CALLS = {}
INV_TRIG = ("asin", "acos", "atan")


def num(v):
    return ("num", v)


def var(n):
    return ("var", n)


def idx(n, *subs):
    return ("idx", n, [s if isinstance(s, tuple) else num(s) for s in subs])


class FlatGen:
    """Builds one model.  self.tags collects feature tags (core:* / ext:*)."""

    def __init__(self, rng, ext=None, name="M"):
        self.r = rng
        self.ext = ext            # at most one extension feature per model
        self.m = {"name": name, "vars": [], "eqs": [], "ieqs": [], "funcs": []}
        self.tags = set()
        self.scalars, self.vectors, self.matrices, self.bools = [], [], [], []
        self.params, self.consts, self.inputs = [], [], []
        self.structural = {}      # Integer parameters used as sizes: name -> value
        self.determined = set()   # variables that already have a defining equation
        self.states = set()
        self.nfun = 0

    # -- declarations -------------------------------------------------------------------------
    def decl(self, name, typ="Real", prefixes=(), dims=(), attrs=None, value=None):
        v = {"name": name, "type": typ, "prefixes": list(prefixes), "dims": list(dims),
             "attrs": dict(attrs or {}), "value": value}
        self.m["vars"].append(v)
        return v

    def declare_pool(self, n_scal=None, n_vec=None, n_mat=None, n_bool=None):
        r = self.r
        n_scal = r.randint(3, 5) if n_scal is None else n_scal
        for i in range(n_scal):
            self.decl("x%d" % (i + 1))
            self.scalars.append("x%d" % (i + 1))
        self.vlen = r.randint(2, 4)
        n_vec = r.randint(0, 3) if n_vec is None else n_vec
        for i in range(n_vec):
            self.decl("v%d" % (i + 1), dims=[self.vlen])
            self.vectors.append("v%d" % (i + 1))
        n_mat = r.randint(0, 2) if n_mat is None else n_mat
        self.mrows = r.randint(2, 3)
        for i in range(n_mat):
            self.decl("A%d" % (i + 1), dims=[self.mrows, self.vlen])
            self.matrices.append("A%d" % (i + 1))
        n_bool = r.randint(0, 2) if n_bool is None else n_bool
        for i in range(n_bool):
            self.decl("b%d" % (i + 1), "Boolean")
            self.bools.append("b%d" % (i + 1))
        for i in range(r.randint(0, 2)):
            self.decl("p%d" % (i + 1), prefixes=["parameter"], value=num(round(r.uniform(0.5, 4), 2)))
            self.params.append("p%d" % (i + 1))
        if r.random() < 0.4:
            self.decl("c1", prefixes=["constant"], value=num(round(r.uniform(0.5, 4), 2)))
            self.consts.append("c1")
        for i in range(r.randint(0, 2)):
            self.decl("u%d" % (i + 1), prefixes=["input"])
            self.inputs.append("u%d" % (i + 1))

    # -- leaves ---------------------------------------------------------------------------------
    def real_leaves(self, loop_idx=None, loop_len=None, with_time=True, with_der=True):
        lv = [var(s) for s in self.scalars + self.params + self.consts + self.inputs]
        for v in self.vectors:
            lv.append(idx(v, self.r.randint(1, self.vlen)))
            if loop_idx and loop_len == self.vlen:
                lv.append(idx(v, var(loop_idx)))
                lv.append(idx(v, var(loop_idx)))
        for a in self.matrices:
            lv.append(idx(a, self.r.randint(1, self.mrows), self.r.randint(1, self.vlen)))
            if loop_idx and loop_len == self.vlen:
                lv.append(idx(a, self.r.randint(1, self.mrows), var(loop_idx)))
            if loop_idx and loop_len == self.mrows:
                lv.append(idx(a, var(loop_idx), self.r.randint(1, self.vlen)))
        if with_time and self.r.random() < 0.3:
            lv.append(var("time"))
        sc_states = sorted(x for x in self.states if x in self.scalars)
        if with_der and sc_states and self.r.random() < 0.4:
            lv.append(("der", var(self.r.choice(sc_states))))
        if loop_idx:
            lv.append(var(loop_idx))
        return lv

    def gen(self, loop_idx=None, loop_len=None, with_time=True, with_der=True, **kw):
        rels = ("<", "<=", ">", ">=")
        f1 = CORE_F1
        if self.ext == "ext:ne" and not loop_idx:
            rels = ("<>",)
        if self.ext == "ext:inverse-trig":
            f1 = INV_TRIG
        g = mexpr.Gen(self.r, self.real_leaves(loop_idx, loop_len, with_time, with_der),
                      [var(b) for b in self.bools], funcs1=f1, funcs2=("min", "max"),
                      rels=rels, elementwise=True, bool_literals=False, **kw)
        return g

    def note_ops(self, g):
        for k in g.used:
            self.tags.add("op:" + k)

    # -- equation templates -----------------------------------------------------------------------
    def fresh_target(self):
        """scalar unknown for the left-hand side (possibly der(x))."""
        r = self.r
        cands = [s for s in self.scalars if s not in self.determined]
        if not cands:
            cands = list(self.scalars)
        s = r.choice(cands)
        self.determined.add(s)
        if r.random() < 0.3:
            self.states.add(s)
            self.tags.add("core:der-lhs")
            return ("der", var(s))
        return var(s)

    def eq_scalar(self, where="eqs"):
        g = self.gen()
        rhs = g.real(self.r.randint(1, 4))
        lhs = self.fresh_target()
        if self.r.random() < 0.15:
            lhs = ("bin", self.r.choice(("+", "-", "*")), lhs, g.real(1))
            self.tags.add("core:expr-lhs")
        self.note_ops(g)
        self.m[where].append(("eq", lhs, rhs))
        self.tags.add("core:scalar-eq")

    def eq_der_expr(self):
        """der() applied to an arithmetic expression of non-parameter variables (core)."""
        r = self.r
        if len(self.scalars) < 2:
            return self.eq_scalar()
        a, b = r.sample(self.scalars, 2)
        self.states.update((a, b))
        form = r.choice(["lin", "prod", "pow", "sin", "quot"])
        if form == "lin":
            inner = ("bin", "+", var(a), ("bin", "*", num(r.randint(2, 5)), var(b)))
        elif form == "prod":
            inner = ("bin", "*", var(a), var(b))
        elif form == "pow":
            inner = ("bin", "-", ("bin", "^", var(a), num(2)), var(b))
        elif form == "sin":
            inner = ("bin", "+", ("call", "sin", [var(a)]), var(b))
        else:
            inner = ("bin", "/", var(a), ("bin", "+", ("bin", "^", var(b), num(2)), num(1)))
        g = self.gen(with_der=False)
        self.m["eqs"].append(("eq", ("der", inner), g.real(r.randint(0, 2))))
        self.note_ops(g)
        self.tags.add("core:der-of-expression")

    def eq_bool(self):
        if not self.bools:
            return self.eq_scalar()
        g = self.gen()
        b = self.r.choice(self.bools)
        self.m["eqs"].append(("eq", var(b), g.boolean(self.r.randint(1, 3))))
        self.note_ops(g)
        self.tags.add("core:boolean-eq")

    def eq_if(self):
        r = self.r
        g = self.gen()
        nb = r.randint(1, 2)
        k = r.randint(1, 2)
        targets = [self.fresh_target() for _ in range(k)]
        branches = []
        for _ in range(nb):
            branches.append((g.boolean(r.randint(0, 2)), [("eq", t, g.real(r.randint(0, 3))) for t in targets]))
        els = [("eq", t, g.real(r.randint(0, 3))) for t in targets]
        self.m["eqs"].append(("if", branches, els))
        self.note_ops(g)
        self.tags.add("core:if-equation")
        if nb == 2:
            self.tags.add("core:if-equation-elseif")

    def eq_for(self):
        r = self.r
        if not self.vectors and not self.matrices:
            return self.eq_scalar()
        style = r.choice(["vec", "vec", "shift", "idxarith", "matcol", "matrow", "der", "reverse", "stride", "twoshifts",
                          "callshifts", "prodidx", "dershifts"])
        n = self.vlen
        i = r.choice("ijk")
        if style in ("vec", "der") and self.vectors:
            v = r.choice(self.vectors)
            g = self.gen(i, n)
            lhs = idx(v, var(i))
            if style == "der":
                lhs = ("der", lhs)
                self.states.add(v)
                self.tags.add("core:for-der")
            body = [("eq", lhs, g.real(r.randint(1, 3)))]
            if r.random() < 0.3 and len(self.vectors) > 1:
                w = r.choice([x for x in self.vectors if x != v])
                body.append(("eq", idx(w, var(i)), g.real(r.randint(0, 2))))
            self.note_ops(g)
            self.m["eqs"].append(("for", i, num(1), None, num(n), body))
            self.tags.add("core:for-vector")
        elif style == "shift" and self.vectors and n >= 2:
            v = r.choice(self.vectors)
            g = self.gen(i, n)
            rhs = ("bin", "+", idx(v, ("bin", "-", var(i), num(1))), g.real(r.randint(0, 2)))
            self.note_ops(g)
            self.m["eqs"].append(("for", i, num(2), None, num(n), [("eq", idx(v, var(i)), rhs)]))
            self.tags.add("core:for-shifted-index")
        elif style == "twoshifts" and self.vectors and n >= 3:
            # the same array with two different computed subscripts in one loop body: w[i + 1] and w[i - 1]
            v = r.choice(self.vectors)
            w = r.choice(self.vectors)
            g = self.gen(i, None)
            rhs = ("bin", r.choice(("-", "+")), ("bin", "*", num(r.randint(2, 5)), idx(w, ("bin", "+", var(i), num(1)))),
                   idx(w, ("bin", "-", var(i), num(1))))
            if r.random() < 0.5:
                rhs = ("bin", "+", rhs, g.real(r.randint(0, 1)))
            self.note_ops(g)
            self.m["eqs"].append(("for", i, num(2), None, num(n - 1), [("eq", idx(v, var(i)), rhs)]))
            self.tags.add("core:for-two-computed-subscripts-of-one-array")
        elif style == "dershifts" and self.vectors and n >= 2:
            # derivatives of two different elements of one array in one loop body (a box scheme): der(w[i]) and der(w[i + 1])
            v = r.choice(self.vectors)
            w = r.choice(self.vectors)
            self.states.add(w)
            lhs = ("bin", r.choice(("+", "-")), ("der", idx(w, var(i))), ("bin", "*", num(r.randint(2, 5)), ("der", idx(w, ("bin", "+", var(i), num(1))))))
            self.m["eqs"].append(("for", i, num(1), None, num(n - 1), [("eq", lhs, ("bin", "*", num(r.randint(2, 5)), idx(v, var(i))))]))
            self.tags.add("core:for-der-of-two-elements-of-one-array")
        elif style == "callshifts" and self.vectors and n >= 2:
            # the same user function called twice in one loop body on elements of one array at different offsets
            v = r.choice(self.vectors)
            w = r.choice(self.vectors)
            self.nfun += 1
            fname = "g%d" % self.nfun
            c1, c2 = r.randint(2, 5), r.randint(1, 4)
            self.m["funcs"].append({"name": fname, "inputs": [("a1", [])], "outputs": [("o1", [])], "protected": [],
                                    "stmts": [("assign", var("o1"), ("bin", "+", ("bin", "*", num(c1), ("bin", "*", var("a1"), var("a1"))), num(c2)))]})
            rhs = ("bin", "-", ("call", fname, [idx(w, ("bin", "-", var(i), num(1)))]), ("call", fname, [idx(w, var(i))]))
            self.m["eqs"].append(("for", i, num(2), None, num(n), [("eq", idx(v, var(i)), rhs)]))
            self.tags.add("core:for-same-function-at-two-offsets")
        elif style == "prodidx" and self.vectors and n >= 3:
            # a subscript that is a product of two loop-index factors: i * (i - 1) + 1 is 1, 3 (and 7)
            v = r.choice(self.vectors)
            w = r.choice(self.vectors)
            hi = 3 if n >= 7 else 2
            sub = ("bin", "+", ("bin", "*", var(i), ("bin", "-", var(i), num(1))), num(1))
            g = self.gen(i, None)
            self.m["eqs"].append(("for", i, num(1), None, num(hi), [("eq", idx(v, var(i)), ("bin", "+", ("bin", "*", num(2), idx(w, sub)), g.real(0)))]))
            self.note_ops(g)
            self.tags.add("core:for-subscript-product-of-index-factors")
        elif style == "idxarith" and self.vectors and n >= 3:
            v = r.choice(self.vectors)
            half = n // 2
            g = self.gen(i, None)
            body = [("eq", idx(v, var(i)), g.real(r.randint(0, 2))),
                    ("eq", idx(v, ("bin", "+", var(i), num(n - half))), g.real(r.randint(0, 2)))]
            self.note_ops(g)
            self.m["eqs"].append(("for", i, num(1), None, num(half), body))
            self.tags.add("core:for-index-arithmetic")
        elif style == "reverse" and len(self.vectors) >= 1:
            # subscript with slope -1: w[n + 1 - i]
            v = r.choice(self.vectors)
            w = r.choice(self.vectors)
            g = self.gen(i, None)
            rhs = ("bin", "+", idx(w, ("bin", "-", num(n + 1), var(i))), g.real(r.randint(0, 2)))
            self.note_ops(g)
            self.m["eqs"].append(("for", i, num(1), None, num(n), [("eq", idx(v, var(i)), rhs)]))
            self.tags.add("core:for-reversed-index")
        elif style == "stride" and self.vectors and n >= 2:
            # subscript with slope 2: w[2 * i] (and 2*i - 1)
            v = r.choice(self.vectors)
            w = r.choice(self.vectors)
            half = n // 2
            g = self.gen(i, None)
            sub = ("bin", "*", num(2), var(i)) if r.random() < 0.6 else ("bin", "-", ("bin", "*", num(2), var(i)), num(1))
            rhs = ("bin", "*", idx(w, sub), g.real(r.randint(0, 1)))
            self.note_ops(g)
            self.m["eqs"].append(("for", i, num(1), None, num(half), [("eq", idx(v, var(i)), rhs)]))
            self.tags.add("core:for-strided-index")
        elif style == "matcol" and self.matrices:
            a = r.choice(self.matrices)
            g = self.gen(i, n)
            body = [("eq", idx(a, row, var(i)), g.real(r.randint(0, 2))) for row in range(1, self.mrows + 1)]
            self.note_ops(g)
            self.m["eqs"].append(("for", i, num(1), None, num(n), body))
            self.tags.add("core:for-matrix-column")
        elif style == "matrow" and self.matrices:
            a = r.choice(self.matrices)
            g = self.gen(i, self.mrows)
            body = [("eq", idx(a, var(i), col), g.real(r.randint(0, 2))) for col in range(1, n + 1)]
            self.note_ops(g)
            self.m["eqs"].append(("for", i, num(1), None, num(self.mrows), body))
            self.tags.add("core:for-matrix-row")
        else:
            return self.eq_scalar()

    def eq_array(self):
        r = self.r
        n = self.vlen
        if not self.vectors:
            return self.eq_scalar()
        v = r.choice(self.vectors)
        others = [x for x in self.vectors if x != v] or [v]
        w, u = r.choice(others), r.choice(others)
        s = var(r.choice(self.scalars))
        forms = ["add", "scale", "elem", "slice", "sum", "literal", "fill", "zeros", "linspace",
                 "ifexpr", "neg", "div", "ones"]
        if self.matrices:
            forms += ["matvec", "transpose-prod", "mat-elemwise", "sum-matrix", "sum-row-slice", "row-colon"]
        if len(self.vectors) >= 2 and n >= 2:
            forms += ["cat"]
        f = r.choice(forms)
        e = None
        if f == "add":
            e = ("eq", var(v), ("bin", r.choice(("+", "-")), var(w), var(u)))
        elif f == "scale":
            e = ("eq", var(v), ("bin", "*", s, var(w))) if r.random() < 0.5 else ("eq", var(v), ("bin", "*", var(w), num(2.5)))
        elif f == "elem":
            e = ("eq", var(v), ("bin", r.choice((".*", ".+", ".-")), var(w), var(u)))
        elif f == "div":
            e = ("eq", var(v), ("bin", "/", var(w), num(r.choice((2, 4, 0.5)))))
        elif f == "neg":
            e = ("eq", var(v), ("neg", var(w)))
        elif f == "slice" and n >= 3:
            k = r.randint(2, n - 1)
            e = ("eq", ("idx", v, [("slice", num(1), None, num(k))]), ("idx", w, [("slice", num(n - k + 1), None, num(n))]))
        elif f == "sum":
            arg = var(w) if r.random() < 0.6 or n < 3 else ("idx", w, [("slice", num(2), None, num(n))])
            e = ("eq", self.fresh_target(), ("bin", "+", ("call", "sum", [arg]), s))
        elif f == "literal":
            e = ("eq", var(v), ("arr", [num(round(r.uniform(-3, 3), 2)) for _ in range(n)]))
        elif f == "fill":
            e = ("eq", var(v), ("call", "fill", [s, num(n)]))
        elif f == "zeros":
            e = ("eq", var(v), ("bin", "+", ("call", "zeros", [num(n)]), var(w)))
        elif f == "ones":
            e = ("eq", var(v), ("bin", "-", var(w), ("call", "ones", [num(n)])))
        elif f == "linspace":
            e = ("eq", var(v), ("call", "linspace", [s, var(r.choice(self.scalars)), num(n)]))
        elif f == "ifexpr":
            g = self.gen()
            e = ("eq", var(v), ("if", [(g.boolean(1), var(w))], ("bin", "*", num(2), var(u))))
            self.note_ops(g)
        elif f == "matvec":
            a = r.choice(self.matrices)
            # A[mrows, n] * w[n] -> vector of mrows; needs a target of that length
            t = "y%d" % (len(self.m["vars"]))
            self.decl(t, dims=[self.mrows])
            e = ("eq", var(t), ("bin", "*", var(a), var(w)))
        elif f == "transpose-prod":
            a = r.choice(self.matrices)
            t = "y%d" % (len(self.m["vars"]))
            self.decl(t, dims=[self.vlen, self.mrows])
            e = ("eq", var(t), ("call", "transpose", [var(a)]))
        elif f == "mat-elemwise":
            a = r.choice(self.matrices)
            b = r.choice(self.matrices)
            t = "y%d" % (len(self.m["vars"]))
            self.decl(t, dims=[self.mrows, self.vlen])
            e = ("eq", var(t), ("bin", r.choice(("+", "-", ".*")), var(a), ("bin", "*", num(2), var(b))))
        elif f == "sum-matrix":
            e = ("eq", self.fresh_target(), ("call", "sum", [var(r.choice(self.matrices))]))
        elif f == "sum-row-slice":
            a = r.choice(self.matrices)
            lo = r.randint(1, n)
            e = ("eq", self.fresh_target(), ("call", "sum", [("idx", a, [num(r.randint(1, self.mrows)), ("slice", num(lo), None, num(r.randint(lo, n)))])]))
        elif f == "row-colon":
            a = r.choice(self.matrices)
            e = ("eq", ("idx", a, [num(r.randint(1, self.mrows)), ("colon",)]), ("bin", "*", num(2), var(w)))
        elif f == "cat":
            t = "y%d" % (len(self.m["vars"]))
            self.decl(t, dims=[2 * n])
            e = ("eq", var(t), ("call", "cat", [num(1), var(w), var(u)]))
        if e is None:
            return self.eq_scalar()
        self.m["eqs"].append(e)
        self.tags.add("core:array-" + f)

    def make_function(self):
        r = self.r
        self.nfun += 1
        name = "f%d" % self.nfun
        nin = r.randint(1, 3)
        ins = [("a%d" % (i + 1), []) for i in range(nin)]
        nout = 1 if r.random() < 0.7 else 2
        outs = [("o%d" % (i + 1), []) for i in range(nout)]
        prot = [("t", [])] if r.random() < 0.6 else []
        leaves = [var(n) for n, _ in ins]
        g = mexpr.Gen(r, leaves, [], funcs1=("sin", "cos", "exp", "abs", "sqrt"), funcs2=("min", "max"),
                      allow_if=True, bool_literals=False)
        stmts = []
        if prot:
            stmts.append(("assign", var("t"), g.real(2)))
            g.reals.append(var("t"))
        kind = r.choice(["plain", "plain", "if", "for", "for2", "for3"])
        if kind == "for3":
            # a loop with a helper that is overwritten in every iteration (no dependence on itself) and read by a
            # later statement of the same iteration
            if not prot:
                prot = [("t", [])]
            o0 = outs[0][0]
            stmts = [st for st in stmts if st[1] != var("t")]
            stmts.append(("assign", var("t"), num(0)))
            stmts.append(("assign", var(o0), g.real(1)))
            body = [("assign", var("t"), ("bin", "*", ("bin", "+", var("i"), num(r.randint(1, 3))), leaves[0])),
                    ("assign", var(o0), ("bin", "+", var(o0), ("bin", "*", var("t"), r.choice([num(2), leaves[-1]]))))]
            stmts.append(("fors", "i", num(1), num(r.randint(2, 4)), body))
            for (o, _) in outs[1:]:
                stmts.append(("assign", var(o), ("bin", "+", var("t"), g.real(1))))
            self.tags.add("core:function-for-helper-read-in-same-iteration")
            self.note_ops(g)
            f = {"name": name, "inputs": ins, "outputs": outs, "protected": prot, "stmts": stmts}
            self.m["funcs"].append(f)
            return f
        if kind == "for2":
            # one loop whose statements depend on each other across iterations
            acc = [o for o, _ in outs]
            if len(acc) == 1:
                if not prot:
                    prot = [("t", [])]
                    stmts.append(("assign", var("t"), g.real(1)))
                acc.append("t")
            a, b = acc[0], acc[1]
            if not any(st[1] == var(a) for st in stmts):
                stmts.append(("assign", var(a), g.real(1)))
            if not any(st[1] == var(b) for st in stmts):
                stmts.append(("assign", var(b), g.real(1)))
            body = [("assign", var(a), ("bin", "+", var(a), var(b))),
                    ("assign", var(b), ("bin", "+", ("bin", "*", num(2), var(b)), var("i")))]
            if r.random() < 0.5:
                body.reverse()
            stmts.append(("fors", "i", num(1), num(r.randint(2, 4)), body))
            self.tags.add("core:function-for-coupled-statements")
            outs_done = True
        else:
            outs_done = False
        for (o, _) in ([] if outs_done else outs):
            if kind == "if":
                stmts.append(("ifs", [(g.boolean(1), [("assign", var(o), g.real(2))])], [("assign", var(o), g.real(2))]))
                self.tags.add("core:function-if")
            elif kind == "for":
                stmts.append(("assign", var(o), g.real(1)))
                body = [("assign", var(o), ("bin", r.choice(("+", "*")), var(o), r.choice([num(2), var("i"), leaves[0]])))]
                stmts.append(("fors", "i", num(1), num(r.randint(2, 4)), body))
                self.tags.add("core:function-for")
            else:
                stmts.append(("assign", var(o), g.real(3)))
        self.note_ops(g)
        f = {"name": name, "inputs": ins, "outputs": outs, "protected": prot, "stmts": stmts}
        self.m["funcs"].append(f)
        return f

    def eq_func(self):
        f = self.make_function()
        g = self.gen(allow_if=False)
        args = [g.real(self.r.randint(0, 1)) for _ in f["inputs"]]
        call = ("call", f["name"], args)
        if len(f["outputs"]) == 1 and self.vectors and self.r.random() < 0.4:
            # two calls of the same function, outside loops, whose arguments differ only in an array subscript
            v = self.r.choice(self.vectors)
            i, j = self.r.sample(range(1, self.vlen + 1), 2)
            k = self.r.randrange(len(args))
            for sub in (i, j):
                a2 = list(args)
                a2[k] = idx(v, sub)
                self.m["eqs"].append(("eq", self.fresh_target(), ("call", f["name"], a2)))
            self.tags.add("core:function-calls-differing-in-subscript")
            return
        if len(f["outputs"]) == 1:
            e = ("eq", self.fresh_target(), ("bin", "+", call, g.real(0)) if self.r.random() < 0.3 else call)
            self.tags.add("core:function-call")
        else:
            e = ("eqn", [var(self.pick_undetermined()) for _ in f["outputs"]], call)
            self.tags.add("core:function-multi-output")
        self.m["eqs"].append(e)

    def eq_trivial(self):
        """an equation that holds identically (its residual is the constant 0)."""
        r = self.r
        k = r.random()
        if k < 0.4 and self.vectors:
            v = r.choice(self.vectors)
            j = r.randint(1, self.vlen)
            self.m["eqs"].append(("eq", ("bin", "-", idx(v, j), idx(v, j)), num(0)))
        elif k < 0.7:
            s = var(r.choice(self.scalars))
            self.m["eqs"].append(("eq", ("bin", "*", num(2), s), ("bin", "+", s, s)))
        else:
            s, t = var(r.choice(self.scalars)), var(r.choice(self.scalars))
            inner = ("eq", ("bin", "-", t, t), num(0))
            self.m["eqs"].append(("if", [(("bin", ">", s, num(1)), [inner])], [inner]))
        self.tags.add("core:identically-true-equation")

    def pick_undetermined(self):
        c = [s for s in self.scalars if s not in self.determined] or self.scalars
        s = self.r.choice(c)
        self.determined.add(s)
        return s

    def eq_initial(self):
        g = self.gen(with_time=False)
        s = self.r.choice(self.scalars)
        lhs = var(s)
        if self.r.random() < 0.3:
            lhs = ("der", var(s))
            self.states.add(s)
            self.tags.add("core:der-in-initial-equation")
        self.m["ieqs"].append(("eq", lhs, g.real(self.r.randint(0, 2))))
        self.note_ops(g)
        self.tags.add("core:initial-equation")

    # -- extension templates ---------------------------------------------------------------------
    def eq_extension(self):
        r, x = self.r, self.ext
        s1, s2 = var(self.scalars[0]), var(self.scalars[1])
        if x == "ext:ne":
            e = ("eq", self.fresh_target(), ("if", [(("bin", "<>", s1, s2), num(1))], num(2)))
        elif x == "ext:inverse-trig":
            e = ("eq", self.fresh_target(), ("bin", "+", ("call", r.choice(INV_TRIG), [("bin", "/", s1, num(10))]),
                                             ("call", "atan2", [s1, s2])))
        elif x == "ext:array-literal-with-refs":
            self.decl("w9", dims=[2])
            e = ("eq", var("w9"), ("arr", [s1, ("bin", "*", num(2), s2)]))
        elif x == "ext:stepped-range":
            self.decl("w9", dims=[6])
            # the stop value is on the grid of the steps or not (1:2:6 is 1, 3, 5)
            lo1, st1, hi1 = r.choice([(1, 2, 5), (1, 2, 6), (1, 3, 6), (1, 3, 4), (1, 4, 6)])
            lo2, st2, hi2 = r.choice([(2, 2, 4), (2, 2, 5), (2, 3, 6), (2, 3, 5), (2, 4, 6)])
            self.m["eqs"].append(("for", "i", num(lo1), num(st1), num(hi1), [("eq", idx("w9", var("i")), ("bin", "*", var("i"), s1))]))
            e = ("for", "i", num(lo2), num(st2), num(hi2), [("eq", idx("w9", var("i")), s2)])
            if (hi1 - lo1) % st1 or (hi2 - lo2) % st2:
                self.tags.add("stepped-range:stop-off-the-grid")
        elif x == "ext:der-of-parameter-expression":
            if not self.params:
                self.decl("p1", prefixes=["parameter"], value=num(2.0))
                self.params.append("p1")
            self.states.add(self.scalars[0])
            e = ("eq", ("der", ("bin", "+", ("bin", "*", var(self.params[0]), s1), s2)), num(1))
        elif x == "ext:der-of-expression-with-time":
            self.states.add(self.scalars[0])
            inner = r.choice([("bin", "+", s1, ("bin", "*", num(r.randint(2, 5)), var("time"))),
                              ("bin", "*", var("time"), s1),
                              ("bin", "-", ("bin", "*", num(3), s1), var("time"))])
            e = ("eq", ("der", inner), num(1))
        elif x == "ext:if-equation-without-else":
            return
        else:
            raise ValueError(x)
        self.m["eqs"].append(e)
        self.tags.add(x)

    # -- whole model ----------------------------------------------------------------------------
    def eq_delay(self):
        r = self.r
        if not self.params:
            self.decl("pd", prefixes=["parameter"], value=num(round(r.uniform(0.5, 3), 2)))
            self.params.append("pd")
        g = self.gen(allow_if=False, with_der=False)
        inner = var(r.choice(self.scalars)) if r.random() < 0.5 else g.real(1)
        if not mexpr.vars_in(inner):
            inner = ("bin", "+", inner, var(self.scalars[0]))
        dur = r.choice([var(self.params[0]), num(round(r.uniform(0.5, 5), 1)), ("bin", "*", num(2), var(self.params[0]))])
        if r.random() < 0.3:
            # a duration may also depend on a fixed input
            if "ud" not in self.inputs:
                self.decl("ud", prefixes=["input"], attrs={"fixed": ("bool", True)})
                self.inputs.append("ud")
            dur = r.choice([var("ud"), ("bin", "+", ("bin", "*", num(2), var("ud")), var(self.params[0]))])
            self.tags.add("core:delay-duration-of-fixed-input")
        self.m["eqs"].append(("eq", self.fresh_target(), ("call", "delay", [inner, dur])))
        self.delays = getattr(self, "delays", []) + [(inner, dur)]
        self.tags.add("core:delay")

    def build(self, n_eq=None, weights=None, require=()):
        r = self.r
        self.declare_pool(**({"n_vec": r.randint(1, 3)} if "for" in require else {}))
        if "for" in require:
            self.eq_for()
        if "func" in require:
            self.eq_func()
        if "delay" in require:
            self.eq_delay()
        if "trivial" in require:
            self.eq_trivial()
        n_eq = r.randint(2, 7) if n_eq is None else n_eq
        templ = [self.eq_scalar] * 4 + [self.eq_bool, self.eq_if, self.eq_if, self.eq_for, self.eq_for,
                                        self.eq_for, self.eq_array, self.eq_array, self.eq_array,
                                        self.eq_func, self.eq_func, self.eq_der_expr]
        for _ in range(n_eq):
            r.choice(templ)()
        if r.random() < 0.12 and len(self.scalars) >= 3:
            # two functions with the same short name in different packages, both called in the model
            c1, c2 = r.randint(2, 6), r.randint(2, 6)
            self.m["funcs"].append({"name": "Qa.fs", "inputs": [("u", []), ("k", [])], "outputs": [("y", [])], "protected": [],
                                    "stmts": [("assign", var("y"), ("bin", "+", ("bin", "*", var("k"), var("u")), num(c1)))]})
            self.m["funcs"].append({"name": "Qb.fs", "inputs": [("u", []), ("k", [])], "outputs": [("y", [])], "protected": [],
                                    "stmts": [("assign", var("y"), ("bin", "*", ("bin", "-", var("u"), var("k")), ("bin", "-", var("u"), num(c2))))]})
            a, b, c = r.sample(self.scalars, 3)
            order = [("Qa.fs", a), ("Qb.fs", b)]
            r.shuffle(order)
            for fn, tgt in order:
                self.m["eqs"].append(("eq", var(tgt), ("call", fn, [var(c), num(r.randint(2, 5))])))
            self.tags.add("core:functions-with-equal-short-names-in-different-packages")
        if r.random() < 0.1 and len(self.scalars) >= 3:
            # two literals that differ beyond the sixth significant digit (time stamps, coordinates)
            l1, l2 = r.choice([(12345678, 12345679), (1234567.0, 1234568.0), (3.14159265, 3.14159), (101324.75, 101325.25)])
            a, b, c = r.sample(self.scalars, 3)
            self.m["eqs"].append(("eq", var(a), ("bin", "-", var(c), num(l1))))
            self.m["eqs"].append(("eq", var(b), ("bin", "+", ("bin", "*", num(0.5), var(c)), num(l2))))
            if r.random() < 0.5:
                self.m["ieqs"].append(("eq", var(c), num(l2)))
            self.tags.add("core:literals-differing-beyond-the-sixth-significant-digit")
        if r.random() < 0.35:
            for _ in range(r.randint(1, 2)):
                self.eq_initial()
        if self.ext:
            self.eq_extension()
        return self.m

    # -- evaluation points ------------------------------------------------------------------------
    def point(self, rng):
        env = {"time": round(rng.uniform(0.2, 3.0), 3)}
        for v in self.m["vars"]:
            shape = tuple(v["dims"])
            if v["name"] in self.structural:
                env[v["name"]] = self.structural[v["name"]]
                continue
            if v["type"] == "Boolean":
                val = (np.array([[float(rng.random() < 0.5)]]).reshape(()) if not shape
                       else np.array([float(rng.random() < 0.5) for _ in range(int(np.prod(shape)))]).reshape(shape))
            elif v["type"] == "Integer":
                val = (float(rng.randint(-3, 5)) if not shape
                       else np.array([float(rng.randint(-3, 5)) for _ in range(int(np.prod(shape)))]).reshape(shape))
            else:
                def one():
                    x = round(rng.uniform(0.3, 3.2), 3)
                    return x if rng.random() < 0.7 else -x
                val = one() if not shape else np.array([one() for _ in range(int(np.prod(shape)))]).reshape(shape)
            env[v["name"]] = float(val) if not shape else val
            if v["type"] == "Real" and not set(v["prefixes"]) & {"parameter", "constant", "input"}:
                d = (round(rng.uniform(-2, 2), 3) if not shape
                     else np.array([round(rng.uniform(-2, 2), 3) for _ in range(int(np.prod(shape)))]).reshape(shape))
                env["der(%s)" % v["name"]] = d
        return env
