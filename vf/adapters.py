"""Reading what pymoca produced: AST -> reference expressions, CasADi functions at named points."""
import numpy as np


class Unknown(Exception):
    """node kind the adapter does not understand -> the case is inconclusive, never a pass."""


def cref_name(c):
    parts = [c.name]
    while c.child:
        c = c.child[0]
        parts.append(c.name)
    return ".".join(parts)


def cref_subs(c):
    subs = []
    while True:
        for ia in c.indices:
            for i in ia:
                if i is not None:
                    subs.append(i)
        if not c.child:
            break
        c = c.child[0]
    return subs


def to_mexpr(n):
    from pymoca import ast
    if isinstance(n, ast.Primary):
        v = n.value
        if isinstance(v, bool):
            return ("bool", v)
        if isinstance(v, (int, float)):
            return ("num", v)
        if isinstance(v, str):
            return ("str", v)
        raise Unknown("Primary(%r)" % (v,))
    if isinstance(n, ast.ComponentRef):
        subs = cref_subs(n)
        name = cref_name(n)
        if subs:
            return ("idx", name, [sub_to_mexpr(s) for s in subs])
        return ("var", name)
    if isinstance(n, ast.Symbol):
        return ("var", n.name)
    if isinstance(n, ast.Array):
        return ("arr", [to_mexpr(v) for v in n.values])
    if isinstance(n, ast.IfExpression):
        if len(n.expressions) != len(n.conditions) + 1:
            raise Unknown("if-expression arity")
        return ("if", [(to_mexpr(c), to_mexpr(x)) for c, x in zip(n.conditions, n.expressions)],
                to_mexpr(n.expressions[-1]))
    if isinstance(n, ast.Expression):
        op = n.operator
        if isinstance(op, ast.ComponentRef):
            return ("call", cref_name(op), [to_mexpr(o) for o in n.operands])
        k = len(n.operands)
        if op == "der":
            if k != 1:
                raise Unknown("der arity")
            return ("der", to_mexpr(n.operands[0]))
        if op == "not" and k == 1:
            return ("not", to_mexpr(n.operands[0]))
        if op in ("-", "+") and k == 1:
            return ("neg" if op == "-" else "pos", to_mexpr(n.operands[0]))
        from .mexpr import LEVEL
        if op in LEVEL and k == 2:
            return ("bin", op, to_mexpr(n.operands[0]), to_mexpr(n.operands[1]))
        if op in LEVEL and k > 2:
            # n-ary form of an associative chain (left fold keeps Modelica's meaning)
            acc = to_mexpr(n.operands[0])
            for o in n.operands[1:]:
                acc = ("bin", op, acc, to_mexpr(o))
            return acc
        if isinstance(op, str):
            return ("call", op, [to_mexpr(o) for o in n.operands])
        raise Unknown("Expression operator %r" % (op,))
    if isinstance(n, list) and len(n) == 1:
        return to_mexpr(n[0])
    raise Unknown(type(n).__name__)


def sub_to_mexpr(s):
    from pymoca import ast
    if isinstance(s, ast.Slice):
        lo, hi, st = s.start, s.stop, s.step
        if isinstance(lo, ast.Primary) and lo.value is None and isinstance(hi, ast.Primary) and hi.value is None:
            return ("colon",)
        stm = to_mexpr(st)
        return ("slice", to_mexpr(lo), None if stm == ("num", 1) else stm, to_mexpr(hi))
    return to_mexpr(s)


# ---------------------------------------------------------------------------------------------
# CasADi model evaluation at a named point
# ---------------------------------------------------------------------------------------------
def _vec(variables, point, default=None):
    out = []
    for v in variables:
        nm = v.symbol.name()
        n1, n2 = v.symbol.size1(), v.symbol.size2()
        if nm in point:
            val = np.asarray(point[nm], dtype=float)
        elif default is not None:
            val = np.full((n1, n2), default)
        else:
            raise KeyError(nm)
        if val.size != n1 * n2:
            raise ValueError("shape of %s: model %dx%d, point %s" % (nm, n1, n2, val.shape))
        if val.ndim <= 1:
            flat = val.reshape(-1)
        else:
            flat = val.reshape((n1, n2)).reshape(-1, order="F")  # veccat is column-major
        out.extend(float(x) for x in flat)
    return out


def model_args(model, point):
    """the seven input vectors of a pymoca Model's functions, assembled by symbol name."""
    return [
        [float(point.get("time", 0.0))],
        _vec(model.states, point),
        _vec(model.der_states, point),
        _vec(model.alg_states, point),
        _vec(model.inputs, point),
        _vec(model.constants, point),
        _vec(model.parameters, point),
    ]


def call_function(f, args):
    import casadi as ca
    res = f.call([ca.DM(a) if len(a) else ca.DM.zeros(0, 1) for a in args])
    return [np.array(r, dtype=float) for r in res]


def residual(model, point, initial=False):
    f = model.initial_residual_function if initial else model.dae_residual_function
    res = call_function(f, model_args(model, point))
    if not res:
        return np.zeros(0)
    return res[0].reshape(-1, order="F")


def var_names(vs):
    return [v.symbol.name() for v in vs]


def _hashed(base, i, salt):
    import hashlib
    h = hashlib.sha256(("%s|%d|%d" % (base, i, salt)).encode()).digest()
    return 0.5 + (int.from_bytes(h[:4], "big") % 3000) / 1000.0


def split_indexed_name(nm):
    """'der(c[2].z[1,3])' -> ('der(c.z)', (1, 0, 2)) ; 'x' -> ('x', ())"""
    import re
    groups = re.findall(r"\[([^\]]*)\]", nm)
    base = re.sub(r"\[[^\]]*\]", "", nm)
    ix = tuple(int(t) - 1 for g in groups for t in g.split(",")) if groups else ()
    return base, ix


def complete_point(model, env, salt=0):
    """values for every symbol of the model's lists: from env by name; scalars produced by vector
    expansion ('c[2].z[1]', 'der(v[2])') from the array of their base name; anything else (delay
    states, ...) deterministic by (base name, flat element index) so that expanded and unexpanded
    variants of one model get the same numbers."""
    pt = dict(env)
    for l in (model.states, model.der_states, model.alg_states, model.inputs, model.constants, model.parameters):
        for v in l:
            nm = v.symbol.name()
            if nm in pt:
                continue
            base, ix = split_indexed_name(nm)
            if ix and base in env:
                pt[nm] = float(np.asarray(env[base], dtype=float)[ix])
                continue
            n1, n2 = v.symbol.size1(), v.symbol.size2()
            if ix:
                # expanded element of a generated symbol: same number as element ix of the vector
                # element (i, j) of a generated matrix symbol is keyed i + 10007 * j (j = 0 for a column)
                key = ix[0] + 10007 * (ix[1] if len(ix) > 1 else 0) if len(ix) <= 2 else hash(ix) % 1000
                pt[nm] = _hashed(base, key, salt)
            else:
                pt[nm] = np.array([[_hashed(nm, i + 10007 * j, salt) for j in range(n2)] for i in range(n1)]).reshape(n1, n2)
    return pt
