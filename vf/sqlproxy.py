"""sqlite3/os proxies put into pymoca.parser's namespace, and a controlled scheduler (C02).

Nothing of sqlite is emulated: every call goes to the real sqlite3 module and the real database
file.  The proxy only (a) reports a *scheduling point* before each call that touches the database
(connect, execute, commit, close, os.remove), (b) records the outcome and duration of the call.
The scheduler decides which registered worker thread may pass its next point; a worker that does
not come back from a sqlite call within BLOCK_T is taken to be waiting for a database lock and the
next worker is released, exactly as the operating system would do."""
import threading
import time

BLOCK_T = 0.03


def sql_kind(sql):
    s = sql.strip().split()
    k = s[0].upper() if s else "?"
    if k == "BEGIN":
        return "BEGIN-" + (s[1].upper().rstrip(";") if len(s) > 1 else "DEFERRED")
    if k in ("CREATE", "DROP", "INSERT", "DELETE", "UPDATE", "SELECT", "PRAGMA", "ALTER"):
        tail = sql.upper()
        for t in ("SQLITE_MASTER", "MODELS", "METADATA", "INTEGRITY_CHECK", "TABLE_INFO"):
            if t in tail:
                return "%s:%s" % (k, t.lower())
    return k


class Hub:
    """Routes points/outcomes of the calling thread to the scheduler (if the thread is a registered worker)."""

    def __init__(self, sched=None, delay=None, db_path=None):
        self.sched = sched
        self.delay = delay            # callable() -> seconds, or None
        self.workers = {}             # thread ident -> worker id
        self.events = []              # (wid, kind, outcome, elapsed)
        self.lock = threading.Lock()
        self.db_path = str(db_path) if db_path else None
        self.removed = []

    def register(self, wid):
        self.workers[threading.get_ident()] = wid

    def wid(self):
        return self.workers.get(threading.get_ident())

    def call(self, kind, fn):
        w = self.wid()
        if w is None:
            return fn()
        if self.sched is not None:
            self.sched.point(w, kind)
        elif self.delay is not None:
            d = self.delay()
            if d:
                time.sleep(d)
        t0 = time.monotonic()
        if self.sched is not None:
            self.sched.enter_sql(w)
        try:
            r = fn()
        except BaseException as e:
            el = time.monotonic() - t0
            with self.lock:
                self.events.append((w, kind, "error:%s:%s" % (type(e).__name__, str(e)[:60]), el))
            if self.sched is not None:
                self.sched.exit_sql(w, "error")
            raise
        el = time.monotonic() - t0
        with self.lock:
            self.events.append((w, kind, "ok", el))
        if self.sched is not None:
            self.sched.exit_sql(w, "ok")
        return r


class CurProxy:
    def __init__(self, cur, hub):
        self._c, self._h = cur, hub

    def execute(self, sql, *a):
        self._h.call(sql_kind(sql), lambda: self._c.execute(sql, *a))
        return self

    def __getattr__(self, n):
        return getattr(self._c, n)


class ConnProxy:
    def __init__(self, conn, hub):
        self._c, self._h = conn, hub

    def cursor(self):
        return CurProxy(self._c.cursor(), self._h)

    def commit(self):
        return self._h.call("commit", self._c.commit)

    def close(self):
        return self._h.call("close", self._c.close)

    def execute(self, sql, *a):
        return self._h.call(sql_kind(sql), lambda: self._c.execute(sql, *a))

    def __getattr__(self, n):
        return getattr(self._c, n)


class SqlModuleProxy:
    def __init__(self, real, hub):
        self._real, self._h = real, hub

    def connect(self, *a, **kw):
        return ConnProxy(self._h.call("connect", lambda: self._real.connect(*a, **kw)), self._h)

    def __getattr__(self, n):
        return getattr(self._real, n)


class OsModuleProxy:
    def __init__(self, real, hub):
        self._real, self._h = real, hub

    def remove(self, path, *a, **kw):
        if self._h.db_path and (str(path) == self._h.db_path or (getattr(self._h, "db_name", None) and str(path).endswith("/" + self._h.db_name))):
            with self._h.lock:
                self._h.removed.append(self._h.wid())
        return self._h.call("os.remove", lambda: self._real.remove(path, *a, **kw))

    unlink = remove

    def __getattr__(self, n):
        return getattr(self._real, n)


class Installed:
    """context manager: put the proxies into pymoca.parser."""

    def __init__(self, hub):
        self.hub = hub

    def __enter__(self):
        import sys
        self.mod = sys.modules["pymoca.parser"]
        self.saved = (self.mod.sqlite3, self.mod.os)
        self.mod.sqlite3 = SqlModuleProxy(self.saved[0], self.hub)
        self.mod.os = OsModuleProxy(self.saved[1], self.hub)
        return self.hub

    def __exit__(self, *a):
        self.mod.sqlite3, self.mod.os = self.saved


class Scheduler:
    def __init__(self, n, word, watchdog=40.0):
        self.cv = threading.Condition()
        self.n = n
        self.word, self.pos = list(word), 0
        self.waiting = {}
        self.granted = None
        self.running = None
        self.running_since = 0.0
        self.in_sql = {}
        self.done = set()
        self.trace = []           # [wid, kind, outcome]
        self.last = {}            # wid -> index in trace of its current call
        self.watchdog = watchdog
        self.preemptions = 0
        self.last_granted = None
        self.abort = False

    def point(self, wid, kind):
        with self.cv:
            if self.running == wid:
                self.running = None
            self.waiting[wid] = kind
            self.cv.notify_all()
            while self.granted != wid and not self.abort:
                self.cv.wait()
            if self.abort:
                self.waiting.pop(wid, None)
                return
            self.granted = None
            del self.waiting[wid]
            self.running, self.running_since = wid, time.monotonic()
            self.last[wid] = len(self.trace)
            self.trace.append([wid, kind, "?"])
            self.cv.notify_all()

    def enter_sql(self, wid):
        with self.cv:
            self.in_sql[wid] = True
            if self.running == wid:
                self.running_since = time.monotonic()

    def exit_sql(self, wid, outcome):
        with self.cv:
            self.in_sql[wid] = False
            i = self.last.get(wid)
            if i is not None:
                self.trace[i][2] = outcome if self.trace[i][2] == "?" else self.trace[i][2] + ">" + outcome
            self.cv.notify_all()

    def finish(self, wid):
        with self.cv:
            self.done.add(wid)
            if self.running == wid:
                self.running = None
            self.cv.notify_all()

    def control(self):
        t_end = time.monotonic() + self.watchdog
        with self.cv:
            while len(self.done) < self.n:
                if time.monotonic() > t_end:
                    self.abort = True          # release everybody: free run to the end
                    self.cv.notify_all()
                    return "watchdog"
                if self.granted is not None:
                    self.cv.wait(0.01)
                    continue
                if self.running is not None:
                    r = self.running
                    if self.in_sql.get(r) and time.monotonic() - self.running_since > BLOCK_T:
                        i = self.last.get(r)
                        if i is not None and self.trace[i][2] == "?":
                            self.trace[i][2] = "blocked"
                        self.running = None
                    else:
                        self.cv.wait(0.004)
                        continue
                cand = set(self.waiting)
                if not cand:
                    self.cv.wait(0.004)
                    continue
                w = None
                while self.pos < len(self.word):
                    s = self.word[self.pos]
                    self.pos += 1
                    if s in cand:
                        w = s
                        break
                if w is None:
                    w = min(cand)
                if self.last_granted is not None and w != self.last_granted and self.last_granted in cand:
                    self.preemptions += 1
                self.last_granted = w
                self.granted = w
                self.cv.notify_all()
        return "ok"

    def signature(self):
        return [(w, k, o) for w, k, o in self.trace]
