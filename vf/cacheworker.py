"""Subprocess entry: transfer_model in a fresh process and print the model signature as JSON.
usage: python -m vf.cacheworker <folder> <model> <options json> [<version override>]"""
import json
import logging
import sys


def main(argv):
    logging.disable(logging.CRITICAL)
    folder, name, opts = argv[0], argv[1], json.loads(argv[2])
    if len(argv) > 3 and argv[3]:
        import pymoca
        import pymoca.backends.casadi.api as api_
        pymoca.__version__ = argv[3]
        api_.__version__ = argv[3]
    from pymoca.backends.casadi import api
    from vf import cachecmp
    out = {}
    try:
        model = api.transfer_model(folder, name, opts)
        out["class"] = type(model).__name__
        out["signature"] = cachecmp.signature(model)
    except BaseException as e:  # noqa: the parent decides what an exception means
        out["exception"] = type(e).__name__
        out["message"] = str(e)[:300]
    print("@@RESULT@@" + json.dumps(out))


if __name__ == "__main__":
    main(sys.argv[1:])
