/* LD_PRELOAD shim: CPython 3.12 allocates and frees a 16 KiB data-stack chunk with mmap/munmap
 * every time the interpreter's frame stack crosses a chunk boundary; in this sandbox fresh
 * page faults are very expensive under parallel load.  Cache small anonymous private mappings
 * instead of returning them to the kernel.  Only affects the verification workers' speed. */
#define _GNU_SOURCE
#include <dlfcn.h>
#include <stddef.h>
#include <string.h>
#include <sys/mman.h>

#define CHUNK 16384
#define MAXC 256
static void *cache[MAXC];
static int ncache = 0;
static void *(*real_mmap)(void *, size_t, int, int, int, off_t) = 0;
static int (*real_munmap)(void *, size_t) = 0;
static volatile int lock = 0;

static void init(void) {
  if (!real_mmap) real_mmap = dlsym(RTLD_NEXT, "mmap");
  if (!real_munmap) real_munmap = dlsym(RTLD_NEXT, "munmap");
}
static void take(void) { while (__sync_lock_test_and_set(&lock, 1)) ; }
static void give(void) { __sync_lock_release(&lock); }

void *mmap(void *addr, size_t len, int prot, int flags, int fd, off_t off) {
  init();
  if (addr == NULL && len == CHUNK && prot == (PROT_READ | PROT_WRITE) &&
      flags == (MAP_PRIVATE | MAP_ANONYMOUS) && fd == -1) {
    void *p = NULL;
    take();
    if (ncache > 0) p = cache[--ncache];
    give();
    if (p) { memset(p, 0, CHUNK); return p; }
  }
  return real_mmap(addr, len, prot, flags, fd, off);
}

int munmap(void *addr, size_t len) {
  init();
  if (len == CHUNK) {
    int ok = 0;
    take();
    if (ncache < MAXC) { cache[ncache++] = addr; ok = 1; }
    give();
    if (ok) return 0;
  }
  return real_munmap(addr, len);
}

void *mmap64(void *addr, size_t len, int prot, int flags, int fd, off_t off) {
  return mmap(addr, len, prot, flags, fd, off);
}
