"""Worker process: executes one shard of one check and writes a JSON result file."""
import hashlib
import importlib
import json
import os
import random
import signal
import sys
import time
import traceback


class CaseTimeout(BaseException):
    pass


def _alarm(signum, frame):
    raise CaseTimeout()


class Ctx:
    def __init__(self, tier, seed, shard, nshards, budget):
        self.tier, self.seed, self.shard, self.nshards = tier, seed, shard, nshards
        self.budget = budget
        self.t0 = time.time()
        self.rng = random.Random(seed * 1000003 + shard)
        self.work = os.environ.get("VERIF_WORK", "/verif/.work/manual")
        self.prep = os.environ.get("VERIF_PREP", os.path.join(self.work, "prep"))
        os.makedirs(self.work, exist_ok=True)
        self.cases = 0
        self.digests = set()
        self.cover_ = {}
        self.monitors = {}
        self.discards = {}
        self.samples = []
        self.violations = []
        self.inconclusive_ = []
        self.extra = {}
        self.replay_case = None

    # -- budget -------------------------------------------------------------------------
    def time_left(self):
        return self.budget - (time.time() - self.t0)

    def out_of_time(self):
        return self.time_left() <= 0

    def quick(self):
        return self.tier == "quick"

    def n(self, quick, thorough):
        """Per-shard case count for the tier (total/nshards, rounded up)."""
        tot = quick if self.tier == "quick" else thorough
        return -(-tot // self.nshards)

    def subrng(self, *key):
        h = hashlib.sha256(repr((self.seed, self.shard) + key).encode()).digest()
        return random.Random(int.from_bytes(h[:8], "big"))

    # -- recording ----------------------------------------------------------------------
    def case(self, desc, nontrivial=True, sample=None):
        self.cases += 1
        if nontrivial:
            d = hashlib.sha256(json.dumps(desc, sort_keys=True, default=str).encode()).hexdigest()[:16]
            self.digests.add(d)
        if sample is not None and len(self.samples) < 2:
            self.samples.append(sample)

    def cover(self, key, n=1):
        self.cover_[key] = self.cover_.get(key, 0) + n

    def monitor(self, name, n=1):
        self.monitors[name] = self.monitors.get(name, 0) + n

    def discard(self, reason, n=1):
        self.discards[reason] = self.discards.get(reason, 0) + n

    def violation(self, key, what, case):
        self.violations.append({"key": key, "what": what, "case": case})

    def inconclusive(self, reason, case=None):
        self.inconclusive_.append({"reason": reason})

    # -- guarded execution of one case ---------------------------------------------------
    def guarded(self, fn, *args, timeout=60, **kw):
        """Run fn under a wall-clock watchdog; a firing watchdog makes the case inconclusive."""
        signal.signal(signal.SIGALRM, _alarm)
        signal.alarm(int(timeout))
        try:
            return fn(*args, **kw)
        except CaseTimeout:
            self.inconclusive("watchdog fired after %ds in %s" % (timeout, getattr(fn, "__name__", fn)))
            return None
        except (KeyboardInterrupt, SystemExit, MemoryError):
            raise
        except Exception as e:
            # an exception nobody attributed (harness or code under test): this case is undecided, the shard goes on.
            # Checks catch the exceptions of the code under test where they expect a result and report them as
            # violations; what arrives here was not foreseen.
            tb = traceback.extract_tb(e.__traceback__)
            where = "; ".join("%s:%s:%d" % (os.path.basename(f.filename), f.name, f.lineno) for f in tb[-3:])
            inside = [f for f in tb if (os.sep + "pymoca" + os.sep) in f.filename or f.filename.endswith(os.sep + "tools" + os.sep + "compiler.py")]
            if inside and getattr(self, "prop", None):
                # raised inside the code under test, at a place where the check expected a result
                self.violation("%s:unexpected-exception:%s@%s:%s" % (self.prop, type(e).__name__, os.path.basename(inside[-1].filename), inside[-1].name),
                               "the code under test raised %s: %s [%s] where the check expected a result" % (type(e).__name__, str(e)[:300], where),
                               {"unattributed_exception": True})
                return None
            self.inconclusive("unattributed exception in %s: %s: %s [%s]" % (getattr(fn, "__name__", fn), type(e).__name__, str(e)[:200], where))
            self.unattributed = getattr(self, "unattributed", 0) + 1
            if self.unattributed > 50:
                raise
            return None
        finally:
            signal.alarm(0)

    def result(self):
        return {"cases": self.cases, "digests": sorted(self.digests), "cover": self.cover_,
                "monitors": self.monitors, "discards": self.discards, "samples": self.samples,
                "violations": self.violations[:400], "inconclusive": self.inconclusive_[:200],
                "extra": self.extra}


def safe_garbage(rng, n):
    """random bytes for files/blobs that will be fed to pickle: without the opcodes LONG_BINPUT ('r') and PUT ('p'),
    which make the unpickler resize its memo to an index taken from the data (a random 4-byte index allocates up to
    64 GB - observed: a shard was killed by the kernel's OOM killer at 35 GB)."""
    return bytes(b if b not in (0x72, 0x70) else 0x21 for b in (rng.randrange(256) for _ in range(n)))


def exc_site(exc):
    """Innermost frame of pymoca (or tools/) in the traceback: 'file:function' (no line)."""
    site = None
    for fs in traceback.extract_tb(exc.__traceback__):
        fn = fs.filename.replace("\\", "/")
        if "/pymoca/" in fn or "/tools/" in fn:
            site = "%s:%s" % (os.path.basename(fn), fs.name)
    return site or "outside-pymoca"


def exc_sig(exc):
    return "%s@%s" % (type(exc).__name__, exc_site(exc))


def main(argv):
    if not os.environ.get("VERIF_NO_RLIMIT") and argv[0] not in ("--meta", "--prepare"):
        # safety net: a runaway allocation becomes a MemoryError in this shard instead of an OOM kill of the machine
        import resource
        lim = int(os.environ.get("VERIF_RLIMIT_GB", "12")) << 30
        try:
            resource.setrlimit(resource.RLIMIT_AS, (lim, lim))
        except (ValueError, OSError):
            pass
    if argv[0] == "--meta":
        mod = importlib.import_module("checks." + argv[1])
        tier = argv[2]
        meta = {"level": mod.LEVEL, "rule": mod.RULE, "assumptions": getattr(mod, "ASSUMPTIONS", []),
                "required_monitors": getattr(mod, "REQUIRED_MONITORS", []),
                "exhaustive": getattr(mod, "EXHAUSTIVE", None)}
        b = getattr(mod, "BUDGET", {"quick": 40, "thorough": 600})
        meta["budget_s"] = b[tier]
        meta["shards"] = getattr(mod, "SHARDS", {"quick": 16, "thorough": 16})[tier]
        meta["hard_factor"] = getattr(mod, "HARD_FACTOR", 4)
        meta["prepare"] = hasattr(mod, "prepare")
        print(json.dumps(meta))
        return 0
    if argv[0] == "--prepare":
        mod = importlib.import_module("checks." + argv[1])
        mod.prepare(os.environ["VERIF_PREP"], argv[2])
        return 0
    modname, tier, seed, shard, nshards, budget, out = argv[:7]
    ctx = Ctx(tier, int(seed), int(shard), int(nshards), float(budget))
    ctx.prop = modname.split("_")[0].upper()        # c18_expand_vectors -> C18
    mod = importlib.import_module("checks." + modname)
    if len(argv) > 7:
        with open(argv[7]) as f:
            rp = json.load(f)
        ctx.replay_case = rp["case"]
        mod.replay(ctx, rp["case"])
    else:
        mod.run_shard(ctx)
    tmp = out + ".tmp"
    with open(tmp, "w") as f:
        json.dump(ctx.result(), f, default=str)
    os.replace(tmp, out)
    return 0


if __name__ == "__main__":
    sys.exit(main(sys.argv[1:]))
