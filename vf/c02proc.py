"""Child process of the C02 free-running stress: waits at a file barrier, then calls parse()."""
import hashlib
import json
import logging
import os
import random
import sys
import time


def main():
    folder, ready, go, seed, delay, out = sys.argv[1:7]
    texts = sys.argv[7:]
    logging.disable(logging.CRITICAL)
    import pymoca
    import pymoca.parser as parser
    from pathlib import Path
    from vf import canon, sqlproxy
    pymoca.__version__ = "1.0.vfc02"
    rng = random.Random(int(seed))
    db = os.path.join(folder, "model_txt_cache.db")
    removed = []

    def hook(ev, args):
        if ev in ("os.remove", "os.unlink") and args and str(args[0]) == db:
            removed.append(time.time())
    sys.addaudithook(hook)
    hub = sqlproxy.Hub(delay=(lambda: rng.random() * 0.005 if rng.random() < 0.5 else 0) if delay == "1" else None, db_path=db)
    hub.register(0)
    srcs = [open(t).read() for t in texts]
    refs = []
    for s in srcs:
        t = parser.parse(s, bypass_cache=True)
        refs.append(None if t is None else canon.digest(t))
    calls = []
    with sqlproxy.Installed(hub):
        open(ready, "w").close()
        while not os.path.exists(go):
            time.sleep(0.0005)
        for s, ref in zip(srcs, refs):
            t0 = time.monotonic()
            rec = {"start": time.time()}
            try:
                t = parser.parse(s, model_cache_folder=Path(folder), always_update_last_hit=rng.random() < 0.5,
                                 cache_expiration_days=0 if rng.random() < 0.3 else 30)
                d = None if t is None else canon.digest(t)
                rec["ok"] = d == ref
            except BaseException as e:
                import traceback
                tb = traceback.extract_tb(e.__traceback__)
                site = next(("%s:%s" % (os.path.basename(f.filename), f.name) for f in reversed(tb) if "/pymoca/" in f.filename), "?")
                rec["exception"] = type(e).__name__
                rec["message"] = str(e)[:200]
                rec["site"] = site
            rec["elapsed"] = time.monotonic() - t0
            slow = [e for e in hub.events if e[3] >= 4.5]
            rec["slow_statement"] = bool(slow)
            calls.append(rec)
    json.dump({"calls": calls, "removed": len(removed), "events": len(hub.events),
               "errors": [e[2] for e in hub.events if e[2] != "ok"][:10]}, open(out, "w"))


if __name__ == "__main__":
    main()
