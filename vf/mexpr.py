"""Reference expression language: tuples + Modelica printer + numeric evaluator + generator.

Node forms
  ('num', v) ('bool', b) ('str', s) ('var', name) ('idx', name, [subs])
  ('neg', a) ('pos', a) ('not', a)
  ('bin', op, a, b)      op in + - * / ^ .+ .- .* ./ .^ < <= > >= == <> and or
  ('if', [(cond, expr), ...], else_expr)
  ('call', fname, [args]) ('der', a) ('arr', [items])
  subscripts: expr | ('slice', lo, step_or_None, hi) | ('colon',)
The evaluator never looks at printed text; the printer never looks at values.
"""
import math

import numpy as np

REL = ("<", "<=", ">", ">=", "==", "<>")
LEVEL = {"or": 1, "and": 2, "<": 4, "<=": 4, ">": 4, ">=": 4, "==": 4, "<>": 4,
         "+": 5, "-": 5, ".+": 5, ".-": 5, "*": 6, "/": 6, ".*": 6, "./": 6, "^": 7, ".^": 7}


def level(e):
    t = e[0]
    if t in ("num", "bool", "str", "var", "idx", "call", "der", "arr"):
        return 8
    if t == "bin":
        return LEVEL[e[1]]
    if t in ("neg", "pos"):
        return 5
    if t == "not":
        return 3
    if t == "if":
        return 0
    raise ValueError(t)


def fmt_num(v):
    if isinstance(v, bool):
        return "true" if v else "false"
    if isinstance(v, int):
        return str(v)
    r = repr(float(v))
    if "inf" in r or "nan" in r:
        raise ValueError("non-finite literal")
    return r


class Printer:
    """minimal parentheses; with rng and p_redundant>0 adds redundant ones."""

    def __init__(self, rng=None, p_redundant=0.0, numfmt=None, p_bare_sign=0.0):
        self.rng, self.p, self.numfmt = rng, p_redundant, numfmt
        # pymoca's grammar also accepts a sign directly after a binary operator (a / -b * c), the sign binding tighter
        # than * and / and looser than ^; with p_bare_sign > 0 such operands are sometimes written without parentheses
        self.p_bare_sign = p_bare_sign

    def wrap(self, s):
        return "(" + s + ")"

    def p_(self, e, need, strict=False):
        """print e for a slot requiring level >= need (or > need when strict)."""
        s = self.raw(e)
        lv = level(e)
        if lv < need or (strict and lv == need):
            return self.wrap(s)
        if self.rng is not None and self.p > 0 and self.rng.random() < self.p:
            return self.wrap(s)
        return s

    def sub(self, s):
        if s[0] == "colon":
            return ":"
        if s[0] == "slice":
            parts = [self.p_(s[1], 1)]
            if s[2] is not None:
                parts.append(self.p_(s[2], 1))
            parts.append(self.p_(s[3], 1))
            return ":".join(parts)
        return self.p_(s, 0)

    def raw(self, e):
        t = e[0]
        if t == "num":
            if self.numfmt is not None:
                return self.numfmt(e[1])
            return fmt_num(e[1])
        if t == "bool":
            return "true" if e[1] else "false"
        if t == "str":
            return '"' + e[1] + '"'
        if t == "var":
            return e[1]
        if t == "idx":
            return e[1] + "[" + ", ".join(self.sub(s) for s in e[2]) + "]"
        if t == "call":
            return e[1] + "(" + ", ".join(self.p_(a, 0) for a in e[2]) + ")"
        if t == "der":
            return "der(" + self.p_(e[1], 0) + ")"
        if t == "arr":
            return "{" + ", ".join(self.p_(a, 0) for a in e[1]) + "}"
        if t in ("neg", "pos"):
            # leading sign of an arithmetic expression; operand is a term (level >= 6)
            return ("-" if t == "neg" else "+") + self.p_(e[1], 6)
        if t == "not":
            return "not " + self.p_(e[1], 4)
        if t == "if":
            s = ""
            for i, (c, x) in enumerate(e[1]):
                s += ("if " if i == 0 else " elseif ") + self.p_(c, 1) + " then " + self.p_(x, 1)
            return s + " else " + self.p_(e[2], 1)
        if t == "bin":
            op, a, b = e[1], e[2], e[3]
            lv = LEVEL[op]
            if lv == 7:
                return self.p_(a, 8) + " " + op + " " + self.p_(b, 8)
            if lv == 4:
                return self.p_(a, 5) + " " + op + " " + self.p_(b, 5)
            # left associative: left slot accepts same level, right slot must be tighter
            left = self.p_(a, lv)
            # a leading sign may only open an arithmetic expression: as a left operand of
            # additive operators it is fine ("-a + b"), elsewhere it needs parentheses.
            if a[0] in ("neg", "pos") and lv > 5 and not left.startswith("("):
                left = self.wrap(left)
            right = self.p_(b, lv, strict=True)
            if (b[0] in ("neg", "pos") and level(b[1]) >= 7 and lv in (5, 6) and self.rng is not None and self.p_bare_sign > 0
                    and self.rng.random() < self.p_bare_sign):
                right = self.raw(b)
            return left + " " + op + " " + right
        raise ValueError(t)


def to_text(e, rng=None, p_redundant=0.0, p_bare_sign=0.0):
    return Printer(rng, p_redundant, p_bare_sign=p_bare_sign).p_(e, 0)


# ---------------------------------------------------------------------------------------------
# evaluation
# ---------------------------------------------------------------------------------------------
class Undefined(Exception):
    """evaluation point outside the well-conditioned domain (discard the point)."""


def _guard_finite(v):
    a = np.asarray(v, dtype=float)
    if not np.all(np.isfinite(a)):
        raise Undefined("non-finite")
    if np.any(np.abs(a) > 1e8):
        raise Undefined("magnitude")
    return v


FUNCS1 = {
    "sin": np.sin, "cos": np.cos, "tan": np.tan, "exp": np.exp, "sinh": np.sinh,
    "cosh": np.cosh, "tanh": np.tanh, "abs": np.abs, "floor": np.floor, "ceil": np.ceil,
    "asin": np.arcsin, "acos": np.arccos, "atan": np.arctan,
}


class Evaluator:
    """env: name -> python number / numpy array.  'der(x)' is looked up as env['der(x)'].
    logic='casadi': relations -> 0/1, and -> product, or -> sum, not x -> (x == 0)
    logic='bool'  : Python booleans."""

    def __init__(self, env, logic="casadi", functions=None, tie=1e-6, edge=1e-3):
        self.env, self.logic, self.functions = env, logic, functions or {}
        self.tie, self.edge = tie, edge
        self.maxabs = 1.0     # largest intermediate magnitude seen: scales the comparison tolerance

    def _note(self, v):
        try:
            m = float(np.max(np.abs(np.asarray(v, dtype=float)))) if np.size(v) else 0.0
            if m > self.maxabs and math.isfinite(m):
                self.maxabs = m
        except (TypeError, ValueError):
            pass
        return v

    def truth(self, v):
        if self.logic == "bool":
            if not isinstance(v, (bool, np.bool_)):
                raise TypeError("condition is not Boolean: %r" % (v,))
            return bool(v)
        a = np.asarray(v, dtype=float)
        if a.size != 1:
            raise Undefined("array condition")
        if abs(float(a)) < self.tie and float(a) != 0.0:
            raise Undefined("condition near zero")
        return float(a) != 0.0

    def b2n(self, b):
        return bool(b) if self.logic == "bool" else (1.0 if b else 0.0)

    def ev(self, e):
        t = e[0]
        if t == "num":
            return e[1]
        if t == "bool":
            return self.b2n(e[1])
        if t == "str":
            return e[1]
        if t == "var":
            return self.env[e[1]]
        if t == "idx":
            return self.index(self.env[e[1]], e[2])
        if t == "neg":
            return -self.ev(e[1])
        if t == "pos":
            return +self.ev(e[1])
        if t == "not":
            v = self.ev(e[1])
            return self.b2n(not self.truth(v))
        if t == "if":
            for c, x in e[1]:
                if self.truth(self.ev(c)):
                    return self.ev(x)
            return self.ev(e[2])
        if t == "der":
            return self.der(e[1])
        if t == "arr":
            return np.array([self.ev(a) for a in e[1]], dtype=float)
        if t == "call":
            return self._note(self.call(e[1], [self.ev(a) for a in e[2]], e))
        if t == "bin":
            return self._note(self.binop(e[1], self.ev(e[2]), self.ev(e[3])))
        raise ValueError(t)

    def der(self, a):
        if a[0] == "var":
            return self.env["der(%s)" % a[1]]
        if a[0] == "idx":
            return self.index(self.env["der(%s)" % a[1]], a[2])
        return self.dt(a)[1]

    def dt(self, e):
        """(value, time derivative) of an arithmetic expression; variables without a 'der(v)' entry
        in the environment (parameters, constants) have derivative 0."""
        t = e[0]
        if t == "num":
            return float(e[1]), 0.0
        if t == "var":
            if e[1] == "time":
                return self.env[e[1]], 1.0
            return self.env[e[1]], self.env.get("der(%s)" % e[1], 0.0)
        if t == "idx":
            d = self.env.get("der(%s)" % e[1])
            return self.index(self.env[e[1]], e[2]), (0.0 if d is None else self.index(d, e[2]))
        if t == "neg":
            v, d = self.dt(e[1])
            return -v, -d
        if t == "pos":
            return self.dt(e[1])
        if t == "bin" and e[1] in ("+", "-", "*", "/", ".+", ".-", ".*", "./"):
            (a, da), (b, db) = self.dt(e[2]), self.dt(e[3])
            op = e[1].lstrip(".")
            if op == "+":
                return a + b, da + db
            if op == "-":
                return a - b, da - db
            if op == "*":
                return a * b, da * b + a * db
            if abs(b) < self.edge:
                raise Undefined("near-zero divisor")
            return a / b, (da * b - a * db) / (b * b)
        if t == "bin" and e[1] in ("^", ".^") and e[3][0] == "num":
            a, da = self.dt(e[2])
            n = float(e[3][1])
            if a < self.edge and n != int(n):
                raise Undefined("negative base, non-integer exponent")
            return a ** n, n * a ** (n - 1) * da
        if t == "call" and e[1] in ("sin", "cos", "exp") and len(e[2]) == 1:
            a, da = self.dt(e[2][0])
            if e[1] == "sin":
                return math.sin(a), math.cos(a) * da
            if e[1] == "cos":
                return math.cos(a), -math.sin(a) * da
            return math.exp(a), math.exp(a) * da
        raise Undefined("der of this expression form is not in the reference")

    def subval(self, s, n):
        if s[0] == "colon":
            return slice(None)
        if s[0] == "slice":
            lo, hi = int(self.ev(s[1])), int(self.ev(s[3]))
            st = 1 if s[2] is None else int(self.ev(s[2]))
            idx = list(range(lo, hi + (1 if st > 0 else -1), st))
            if any(i < 1 or i > n for i in idx):
                raise IndexError("slice out of range")
            return [i - 1 for i in idx]
        i = self.ev(s)
        if abs(i - round(i)) > 1e-9:
            raise Undefined("non-integer subscript")
        i = int(round(i))
        if i < 1 or i > n:
            raise IndexError("subscript %d out of 1..%d" % (i, n))
        return i - 1

    def index(self, arr, subs):
        arr = np.asarray(arr)
        if arr.ndim < len(subs):
            raise IndexError("too many subscripts")
        ix = [self.subval(s, arr.shape[k]) for k, s in enumerate(subs)]
        out = arr
        # apply one axis at a time so that list x list selects a sub-matrix
        axis = 0
        for i in ix:
            if isinstance(i, int):
                out = np.take(out, i, axis=axis)
            else:
                if isinstance(i, slice):
                    pass
                else:
                    out = np.take(out, i, axis=axis)
                axis += 1
        return out

    def binop(self, op, a, b):
        if op in ("and", "or"):
            if self.logic == "bool":
                return (self.truth(a) and self.truth(b)) if op == "and" else (self.truth(a) or self.truth(b))
            return a * b if op == "and" else a + b
        if op in REL:
            fa, fb = float(np.asarray(a, dtype=float)), float(np.asarray(b, dtype=float))
            # an exact tie is decided identically by any IEEE evaluation of the same operands;
            # a near tie could go either way under re-association -> discard the point
            if fa != fb and abs(fa - fb) < self.tie * max(1.0, abs(fa), abs(fb)):
                raise Undefined("relation tie")
            r = {"<": fa < fb, "<=": fa <= fb, ">": fa > fb, ">=": fa >= fb,
                 "==": fa == fb, "<>": fa != fb}[op]
            return self.b2n(r)
        if op in ("+", ".+"):
            return _guard_finite(np.add(a, b) if _arr(a, b) else a + b)
        if op in ("-", ".-"):
            return _guard_finite(np.subtract(a, b) if _arr(a, b) else a - b)
        if op == ".*":
            return _guard_finite(np.multiply(a, b) if _arr(a, b) else a * b)
        if op == "*":
            if _arr(a, b) and np.ndim(a) >= 1 and np.ndim(b) >= 1:
                return _guard_finite(np.matmul(a, b))
            return _guard_finite(np.multiply(a, b) if _arr(a, b) else a * b)
        if op in ("/", "./"):
            if np.any(np.abs(np.asarray(b, dtype=float)) < self.edge):
                raise Undefined("near-zero divisor")
            return _guard_finite(np.divide(a, b))
        if op in ("^", ".^"):
            fa = np.asarray(a, dtype=float)
            fb = np.asarray(b, dtype=float)
            if np.any(fa < 0) and np.any(np.abs(fb - np.round(fb)) > 0):
                raise Undefined("negative base, non-integer exponent")
            if np.any(np.abs(fa) < self.edge) and np.any(fb <= 0):
                raise Undefined("zero base, non-positive exponent")
            try:
                with np.errstate(all="ignore"):
                    return _guard_finite(np.power(fa, fb) if _arr(a, b) else float(fa) ** float(fb))
            except OverflowError:
                raise Undefined("overflow")
        raise ValueError(op)

    def call(self, f, args, node):
        with np.errstate(all="ignore"):
            if f in self.functions:
                return self.functions[f](self, args)
            if f in ("log", "log10"):
                if np.any(np.asarray(args[0], dtype=float) < self.edge):
                    raise Undefined("log domain")
                return _guard_finite((np.log if f == "log" else np.log10)(args[0]))
            if f == "sqrt":
                if np.any(np.asarray(args[0], dtype=float) < self.edge):
                    raise Undefined("sqrt domain")
                return _guard_finite(np.sqrt(args[0]))
            if f in ("asin", "acos"):
                if np.any(np.abs(np.asarray(args[0], dtype=float)) > 1 - self.edge):
                    raise Undefined("asin domain")
            if f in ("sin", "cos", "tan"):
                if np.any(np.abs(np.asarray(args[0], dtype=float)) > 1e3):
                    raise Undefined("trig of large argument")
            if f == "tan":
                if np.any(np.abs(np.cos(args[0])) < 1e-2):
                    raise Undefined("tan pole")
            if f in ("floor", "ceil"):
                x = np.asarray(args[0], dtype=float)
                if np.any(np.abs(x - np.round(x)) < self.tie):
                    raise Undefined("floor at integer")
            if f in ("abs", "sign"):
                x = np.asarray(args[0], dtype=float)
                if np.any(np.abs(x) < self.tie):
                    raise Undefined("abs/sign at zero")
            if f in ("exp", "sinh", "cosh"):
                if np.any(np.abs(np.asarray(args[0], dtype=float)) > 15):
                    raise Undefined("exp overflow")
            if f in FUNCS1:
                return _guard_finite(FUNCS1[f](args[0]))
            if f == "sign":
                return np.sign(args[0])
            if f in ("min", "max"):
                if len(args) == 2:
                    fa, fb = np.asarray(args[0], float), np.asarray(args[1], float)
                    if np.any((fa != fb) & (np.abs(fa - fb) < self.tie)):
                        raise Undefined("min/max tie")
                    return (np.minimum if f == "min" else np.maximum)(fa, fb)
                raise Undefined("min/max arity")
            if f == "atan2":
                return np.arctan2(args[0], args[1])
            if f == "sum":
                return np.sum(args[0])
            if f == "transpose":
                return np.transpose(args[0])
            if f == "zeros":
                return np.zeros([int(a) for a in args])
            if f == "ones":
                return np.ones([int(a) for a in args])
            if f == "fill":
                return np.full([int(a) for a in args[1:]], float(args[0]))
            if f == "identity":
                return np.eye(int(args[0]))
            if f == "diagonal":
                return np.diag(np.asarray(args[0], float))
            if f == "linspace":
                return np.linspace(float(args[0]), float(args[1]), int(args[2]))
            if f == "cat":
                return np.concatenate([np.atleast_1d(np.asarray(a, float)) for a in args[1:]])
            if f == "noEvent":
                return args[0]
        raise Undefined("unknown function " + f)


def _arr(a, b):
    return isinstance(a, np.ndarray) or isinstance(b, np.ndarray)


def evaluate(e, env, logic="casadi", functions=None):
    return Evaluator(env, logic, functions).ev(e)


def close(a, b, rtol=1e-9, atol=1e-9):
    a = np.asarray(a, dtype=float)
    b = np.asarray(b, dtype=float)
    if a.shape != b.shape:
        if a.size == b.size:
            a, b = a.reshape(-1), b.reshape(-1)
        else:
            return False
    return bool(np.all(np.abs(a - b) <= atol + rtol * np.maximum(np.abs(a), np.abs(b))))


# ---------------------------------------------------------------------------------------------
# generation
# ---------------------------------------------------------------------------------------------
class Gen:
    """Random typed scalar expressions.  reals/bools: lists of leaf nodes (('var',..)/('idx',..))."""

    def __init__(self, rng, reals, bools=(), funcs1=("sin", "cos", "exp", "sqrt", "abs", "tanh"),
                 funcs2=("min", "max"), arith=("+", "-", "*", "/", "^"), rels=("<", "<=", ">", ">=", "=="),
                 allow_if=True, allow_logic=True, int_literals=True, elementwise=False,
                 bool_literals=True):
        self.rng, self.reals, self.bools = rng, list(reals), list(bools)
        self.funcs1, self.funcs2, self.arith, self.rels = funcs1, funcs2, arith, rels
        self.allow_if, self.allow_logic, self.int_literals = allow_if, allow_logic, int_literals
        self.elementwise = elementwise
        self.bool_literals = bool_literals
        self.used = {}

    def _u(self, k):
        self.used[k] = self.used.get(k, 0) + 1

    def lit(self):
        r = self.rng
        if self.int_literals and r.random() < 0.5:
            return ("num", r.randint(1, 9))
        return ("num", round(r.uniform(0.1, 9.0), r.choice((1, 2, 3))))

    def real(self, depth):
        r = self.rng
        if depth <= 0 or r.random() < 0.18:
            if self.reals and r.random() < 0.7:
                return r.choice(self.reals)
            return self.lit()
        k = r.random()
        if k < 0.55:
            op = r.choice(self.arith)
            if self.elementwise and r.random() < 0.3:
                op = "." + op
            self._u(op)
            if op in ("^", ".^"):
                # keep powers well conditioned: small integer or simple exponents
                ex = ("num", r.choice((2, 3, 2, 0.5, 1.5))) if r.random() < 0.8 else self.real(0)
                return ("bin", op, self.real(depth - 1), ex)
            return ("bin", op, self.real(depth - 1), self.real(depth - 1))
        if k < 0.65:
            self._u("neg" if r.random() < 0.8 else "pos")
            return (("neg" if r.random() < 0.8 else "pos"), self.real(depth - 1))
        if k < 0.8 and self.funcs1:
            f = r.choice(self.funcs1)
            self._u(f)
            return ("call", f, [self.real(depth - 1)])
        if k < 0.87 and self.funcs2:
            f = r.choice(self.funcs2)
            self._u(f)
            return ("call", f, [self.real(depth - 1), self.real(depth - 1)])
        if self.allow_if:
            self._u("if-expr")
            nb = 1 if r.random() < 0.7 else 2
            if nb == 2:
                self._u("elseif")
            return ("if", [(self.boolean(depth - 1), self.real(depth - 1)) for _ in range(nb)],
                    self.real(depth - 1))
        return self.real(depth - 1)

    def boolean(self, depth):
        r = self.rng
        k = r.random()
        if depth <= 0 or k < 0.5 or not self.allow_logic:
            if self.bools and r.random() < 0.3:
                return r.choice(self.bools)
            if self.bool_literals and r.random() < 0.05:
                return ("bool", r.random() < 0.5)
            op = r.choice(self.rels)
            self._u(op)
            return ("bin", op, self.real(max(0, depth - 1)), self.real(max(0, depth - 1)))
        if k < 0.65:
            self._u("not")
            return ("not", self.boolean(depth - 1))
        op = "and" if r.random() < 0.5 else "or"
        self._u(op)
        return ("bin", op, self.boolean(depth - 1), self.boolean(depth - 1))


def ops_in(e, acc=None):
    acc = [] if acc is None else acc
    t = e[0]
    if t == "bin":
        acc.append(e[1])
        ops_in(e[2], acc)
        ops_in(e[3], acc)
    elif t in ("neg", "pos", "not", "der"):
        acc.append(t)
        ops_in(e[1], acc)
    elif t == "if":
        acc.append("if")
        for c, x in e[1]:
            ops_in(c, acc)
            ops_in(x, acc)
        ops_in(e[2], acc)
    elif t == "call":
        acc.append(e[1])
        for a in e[2]:
            ops_in(a, acc)
    elif t == "arr":
        for a in e[1]:
            ops_in(a, acc)
    elif t == "idx":
        for s in e[2]:
            if s[0] == "slice":
                for x in (s[1], s[2], s[3]):
                    if x is not None:
                        ops_in(x, acc)
            elif s[0] != "colon":
                ops_in(s, acc)
    return acc


def vars_in(e, acc=None):
    acc = set() if acc is None else acc
    t = e[0]
    if t == "var":
        acc.add(e[1])
    elif t == "idx":
        acc.add(e[1])
        for s in e[2]:
            if s[0] == "slice":
                for x in (s[1], s[2], s[3]):
                    if x is not None:
                        vars_in(x, acc)
            elif s[0] != "colon":
                vars_in(s, acc)
    elif t == "bin":
        vars_in(e[2], acc)
        vars_in(e[3], acc)
    elif t in ("neg", "pos", "not"):
        vars_in(e[1], acc)
    elif t == "der":
        for v in vars_in(e[1]):
            acc.add("der(%s)" % v)
    elif t == "if":
        for c, x in e[1]:
            vars_in(c, acc)
            vars_in(x, acc)
        vars_in(e[2], acc)
    elif t in ("call",):
        for a in e[2]:
            vars_in(a, acc)
    elif t == "arr":
        for a in e[1]:
            vars_in(a, acc)
    return acc
