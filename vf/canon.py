"""Canonical, sharing-aware serialisation of pymoca AST graphs.

Depth-first numbering of objects; an object met again is emitted as a back-reference {"ref": n},
so shared sub-objects and cycles (parent / scope links) are represented and two graphs are equal
iff they have the same shape *including* their sharing structure.  Per-instance __deepcopy__ hooks
are Python plumbing, not structure, and are skipped."""
import enum
import hashlib
import json
import math


def canon(obj, follow_parent=True, skip=("__deepcopy__",)):
    seen = {}

    def go(o):
        if o is None or isinstance(o, (bool, int, str)):
            return o
        if isinstance(o, float):
            if math.isnan(o):
                return {"float": "nan"}
            if math.isinf(o):
                return {"float": "inf" if o > 0 else "-inf"}
            return o
        if isinstance(o, enum.Enum):
            return {"enum": type(o).__name__ + "." + o.name}
        oid = id(o)
        if oid in seen:
            return {"ref": seen[oid]}
        if isinstance(o, (list, tuple)):
            seen[oid] = len(seen)
            return [go(x) for x in o]
        if isinstance(o, (set, frozenset)):
            seen[oid] = len(seen)
            return {"set": sorted(json.dumps(go(x), sort_keys=True, default=str) for x in o)}
        if isinstance(o, dict):
            seen[oid] = len(seen)
            return {"dict": [[go(k) if not isinstance(k, str) else k, go(v)] for k, v in o.items()]}
        if hasattr(o, "__dict__"):
            seen[oid] = n = len(seen)
            d = {"node": type(o).__name__, "id": n}
            for k, v in o.__dict__.items():
                if k in skip:
                    continue
                if k == "parent" and not follow_parent:
                    d[k] = None if v is None else {"parent-of-kind": type(v).__name__}
                    continue
                d[k] = go(v)
            return d
        return {"opaque": type(o).__name__, "repr": repr(o)[:80]}
    return go(obj)


def digest(obj, **kw):
    return hashlib.sha256(json.dumps(canon(obj, **kw), sort_keys=True, default=str).encode()).hexdigest()[:20]


def first_difference(a, b, path=""):
    """first differing path between two canonical forms (for messages)."""
    if type(a) is not type(b):
        return "%s: %s vs %s" % (path, _short(a), _short(b))
    if isinstance(a, dict):
        for k in a:
            if k not in b:
                return "%s.%s missing on the right" % (path, k)
        for k in b:
            if k not in a:
                return "%s.%s missing on the left" % (path, k)
        for k in a:
            d = first_difference(a[k], b[k], path + "." + str(k))
            if d:
                return d
        return None
    if isinstance(a, list):
        if len(a) != len(b):
            return "%s: length %d vs %d" % (path, len(a), len(b))
        for i, (x, y) in enumerate(zip(a, b)):
            d = first_difference(x, y, "%s[%d]" % (path, i))
            if d:
                return d
        return None
    if a != b:
        return "%s: %r vs %r" % (path, a, b)
    return None


def _short(x):
    s = json.dumps(x, default=str)
    return s if len(s) < 80 else s[:77] + "..."
