"""Model signatures for the cache monitors (C19-C21): everything the property lists, as plain JSON,
evaluated at points that are deterministic functions of the symbol names so that they can be
recomputed in another process."""
import hashlib
import json
import math

import numpy as np

LISTS = ("states", "der_states", "alg_states", "inputs", "parameters", "constants")
ATTRS = ("value", "start", "min", "max", "nominal", "fixed")


def _h(name, i, salt):
    d = hashlib.sha256(("%s|%d|%d" % (name, i, salt)).encode()).digest()
    return int.from_bytes(d[:4], "big")


def point(model, salt):
    """name -> value, typed: Boolean variables in {0,1}, Integers integral."""
    pt = {"time": 0.5 + (_h("time", 0, salt) % 2000) / 1000.0}
    for k in LISTS:
        for v in getattr(model, k):
            nm = v.symbol.name()
            n1, n2 = v.symbol.size1(), v.symbol.size2()
            vals = []
            for i in range(n1 * n2):
                h = _h(nm, i, salt)
                if v.python_type is bool:
                    vals.append(float(h % 2))
                elif v.python_type is int:
                    vals.append(float(1 + h % 5))
                else:
                    vals.append(0.5 + (h % 3000) / 1000.0)
            pt[nm] = np.array(vals).reshape(n1, n2, order="F")
    return pt


def _num(x):
    x = float(x)
    if math.isnan(x):
        return "nan"
    if math.isinf(x):
        return "inf" if x > 0 else "-inf"
    return x


def _arr(a):
    return [_num(x) for x in np.asarray(a, dtype=float).reshape(-1, order="F")]


def attr_at(model, val, pt):
    import casadi as ca
    if isinstance(val, ca.MX):
        if val.is_constant():
            return _arr(ca.DM(ca.evalf(val)))
        ps = [v.symbol for v in model.parameters]
        f = ca.Function("a", ps, [val])
        return _arr(f.call([ca.DM(pt[v.symbol.name()]) for v in model.parameters])[0])
    try:
        return _arr(ca.DM(val))
    except Exception:
        return _arr(np.asarray(val, dtype=float))


def _broadcast(vals, n):
    return vals * n if len(vals) == 1 and n > 1 else vals


def signature(model, salts=(1, 2, 3, 4, 5)):
    import casadi as ca
    from . import adapters
    sig = {"lists": {}, "functions": {}}
    pts = [point(model, s) for s in salts]
    for k in LISTS:
        rows = []
        for v in getattr(model, k):
            row = {"name": v.symbol.name(), "shape": [v.symbol.size1(), v.symbol.size2()], "python_type": v.python_type.__name__,
                   "aliases": sorted(v.aliases)}
            if k != "der_states":
                # a scalar attribute of an array variable applies to every element: compare in broadcast form
                n = v.symbol.size1() * v.symbol.size2()
                row["attrs"] = {a: [_broadcast(attr_at(model, getattr(v, a), pt), n) for pt in pts] for a in ATTRS}
            rows.append(row)
        sig["lists"][k] = rows
    sig["string_parameters"] = [[p.name, p.value, p.start, bool(p.fixed)] for p in model.string_parameters]
    sig["string_constants"] = [[p.name, p.value, p.start, bool(p.fixed)] for p in model.string_constants]
    sig["outputs"] = list(model.outputs)
    sig["delay_states"] = list(model.delay_states)
    sig["alias_relation"] = sorted([c] + sorted(a) for c, a in model.alias_relation)
    for fn in ("dae_residual", "initial_residual", "delay_arguments"):
        f = getattr(model, fn + "_function")
        vals = []
        for pt in pts:
            out = adapters.call_function(f, adapters.model_args(model, pt))
            vals.append([_arr(o) for o in out])
        sig["functions"][fn] = vals
    vals = []
    for pt in pts:
        pv = []
        for v in model.parameters:
            pv.extend(np.asarray(pt[v.symbol.name()], dtype=float).reshape(-1, order="F").tolist())
        out = model.variable_metadata_function.call([ca.DM(pv)])
        vals.append([_arr(np.array(o, dtype=float)) for o in out])
    sig["functions"]["variable_metadata"] = vals
    # delay arguments as the model object reports them (expression and duration evaluated)
    da = []
    for pt in pts:
        row = []
        syms, svals = [model.time], [ca.DM(pt["time"])]
        for k in LISTS:
            for v in getattr(model, k):
                syms.append(v.symbol)
                svals.append(ca.DM(pt[v.symbol.name()]))
        for arg in model.delay_arguments:
            f = ca.Function("d", syms, [ca.MX(arg.expr), ca.MX(arg.duration)], {"allow_free": False})
            o = f.call(svals)
            row.append([_arr(o[0]), _arr(o[1])])
        da.append(row)
    sig["delay_arguments"] = da
    return sig


def first_difference(a, b, path="", rtol=1e-9):
    if isinstance(a, dict) and isinstance(b, dict):
        for k in sorted(set(a) | set(b)):
            if k not in a or k not in b:
                return "%s.%s only on one side" % (path, k)
            d = first_difference(a[k], b[k], path + "." + str(k), rtol)
            if d:
                return d
        return None
    if isinstance(a, list) and isinstance(b, list):
        if len(a) != len(b):
            return "%s: length %d vs %d" % (path, len(a), len(b))
        for i, (x, y) in enumerate(zip(a, b)):
            d = first_difference(x, y, "%s[%d]" % (path, i), rtol)
            if d:
                return d
        return None
    if isinstance(a, (int, float)) and isinstance(b, (int, float)) and not isinstance(a, bool) and not isinstance(b, bool):
        if abs(a - b) <= rtol * max(1.0, abs(a), abs(b)):
            return None
        return "%s: %r vs %r" % (path, a, b)
    if a != b:
        return "%s: %r vs %r" % (path, a, b)
    return None


def digest(sig):
    return hashlib.sha256(json.dumps(sig, sort_keys=True).encode()).hexdigest()[:16]
