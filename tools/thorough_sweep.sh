#!/bin/bash
# exploratory thorough sweep of every check: tools/thorough_sweep.sh <seed> [repo]   (evidence goes to .work/explore)
cd "$(dirname "$0")/.."
seed=${1:-2}
export VERIF_REPO=${2:-${VP_RUN_REPO:-/repo}}
export VERIF_OUT=$PWD/.work/explore VERIF_SEED=$seed
for i in 01 02 03 04 05 06 07 08 09 10 11 12 13 14 15 16 17 18 19 20 21 22 23 24 25 26 27; do
  ./check C$i --tier thorough 2>&1 | grep "^C$i\|VIOLATION\|key=\|INCONCLUSIVE\|LOST" | cut -c1-400 | head -12
done
echo THOROUGH-DONE
