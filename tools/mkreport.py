#!/usr/bin/env python3
"""Regenerate the tables of DESIGN.md section 10 (fix commits, open findings, seeded changes) from
known_findings.json, the /repo history and /verif/seeded/*/meta.json."""
import glob
import json
import os
import re
import subprocess

V = os.path.dirname(os.path.dirname(os.path.abspath(__file__)))
p = os.path.join(V, "DESIGN.md")
s = open(p).read()
kf = json.load(open(os.path.join(V, "known_findings.json")))["findings"]
log = subprocess.check_output(["git", "-C", "/repo", "log", "--reverse", "--format=%h %s"]).decode().splitlines()
subj = {l.split()[0]: " ".join(l.split()[1:]) for l in log if " fix:" in l}
bycommit = {}
for f in kf:
    if f["status"] == "fixed":
        bycommit.setdefault(f["commit"], []).append(f)
tab = "| Commit | Property | What failed (witness) |\n|---|---|---|\n"
for c, sub in subj.items():
    fs = bycommit.get(c, [])
    props = ", ".join(sorted({f["property"] for f in fs})) or "?"
    what = " / ".join(f["what"].split(c, 1)[1].strip() if c in f["what"] else f["what"] for f in fs) or sub
    tab += "| `%s` | %s | %s |\n" % (c, props, what.replace("|", "\\|"))
seedtab = "| Seed | Change (one line) | Caught by |\n|---|---|---|\n"
n = 0
try:
    regress = json.load(open(os.path.join(V, "seeded", "REGRESSION.json")))["results"]
except Exception:
    regress = {}
for d in sorted(glob.glob(os.path.join(V, "seeded", "*", ""))):
    nm = os.path.basename(d.rstrip("/"))
    m = json.load(open(d + "meta.json"))
    first = [l for l in open(d + "notes.md").read().splitlines() if l.strip()][0].lstrip("# ").strip()
    first = re.split(r" [-–—:] ", first, 1)[1] if re.search(r" [-–—:] ", first) else first
    rg = regress.get(nm, {})
    caught = ", ".join(m.get("caught_by") or []) or "-"
    if rg.get("status") == "caught":
        caught = ", ".join(rg["caught_by"])
    elif rg.get("status") == "MISSED":
        caught = "- (not detected at HEAD, see text)"
    elif rg.get("status") == "patch-no-longer-applies" and caught != "-":
        caught += " (when written; the patch predates a later fix: commit)"
    if not m.get("confirmed"):
        caught = "not counted (see text)"
    seedtab += "| %s | %s | %s |\n" % (nm, first.replace("|", "\\|"), caught)
    n += 1


def replace_table(s, header, new):
    i = s.index(header)
    j = i
    lines = s[i:].split("\n")
    k = 0
    while k < len(lines) and lines[k].startswith("|"):
        k += 1
    old = "\n".join(lines[:k]) + "\n"
    return s[:i] + new + s[i + len(old):]


s = replace_table(s, "| Commit | Property | What failed (witness) |", tab)
s = replace_table(s, "| Seed | Change (one line) | Caught by |", seedtab)
s = re.sub(r"The monitors found \*\*\d+ genuine defects", "The monitors found **%d genuine defects" % len(subj), s)
s = re.sub(r"recorded as open findings\*\*\.  \d+ breaking changes", "recorded as open findings**.  %d breaking changes" % n, s)
open(p, "w").write(s)
print("fix commits", len(subj), "seeds", n)
