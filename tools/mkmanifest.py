#!/usr/bin/env python3
"""Generate MANIFEST.json from the table below (one entry per implemented check) and validate it."""
import json
import os
import sys

HERE = os.path.dirname(os.path.dirname(os.path.abspath(__file__)))

# id -> (category, technique, level text, level note, design ref)
CLAIMED = {}


def claim(pid, category, technique, text, note, ref):
    CLAIMED[pid] = (category, technique, text, note, ref)


exec(open(os.path.join(HERE, "tools", "claims.py")).read())

props = [json.loads(l) for l in open(os.path.join(HERE, "properties.jsonl"))]
checks, na = [], []
for p in props:
    pid = p["id"]
    if pid in CLAIMED:
        cat, tech, text, note, ref = CLAIMED[pid]
        checks.append({
            "property_id": pid,
            "quick_cmd": "./check %s --tier quick" % pid,
            "thorough_cmd": "./check %s --tier thorough" % pid,
            "evidence_file": "evidence/%s.json" % pid,
            "replay_cmd_template": "./check %s --replay {path}" % pid,
            "engine": "vf-runner",
            "level_claimed": {"category": cat, "text": text, "design_ref": ref},
            "level_note": note,
            "technique": tech,
        })
    else:
        na.append({"property_id": pid, "reason": NOT_CLAIMED.get(pid, "monitor not implemented yet in this session (planned, see DESIGN.md section 4)")})

manifest = {
    "version": 1,
    "setup_cmd": "./setup.sh",
    "hooks": {
        "guard": "PYMOCA_VERIF",
        "enable": "no source hooks are needed: every observation point is at the public API or the standard-library boundary and is installed by the harness at run time (PYMOCA_VERIF=1 is exported by the runner but read by nothing in /repo)",
        "baseline_off_cmd": "cd /repo && /venv/bin/python -m pytest -ra -q -p no:cacheprovider --timeout=900 --continue-on-collection-errors",
        "source_commits": [],
        "add_only": True,
    },
    "engines": [{"name": "vf-runner", "path": "vf/runner.py", "serves_properties": sorted(CLAIMED),
                 "kind_free_text": "runtime monitors (reference models, history/fault/schedule injection) sharded over worker processes; evidence and replay writer; known-finding matcher"}],
    "checks": checks,
    "notes": "All checks run the real code of /repo's working tree (PYTHONPATH=/repo/src:/repo) under /venv/bin/python. Verdicts: exit 0 held on what was observed, 1 violation (VIOLATION line + replay file), 2 inconclusive. Known genuine defects are listed in known_findings.json by mechanism key.",
    "not_applicable": na,
}
with open(os.path.join(HERE, "MANIFEST.json"), "w") as f:
    json.dump(manifest, f, indent=1)
try:
    import jsonschema
    jsonschema.validate(manifest, json.load(open("/root/.vp/MANIFEST.schema.json")))
    print("MANIFEST.json valid; claimed:", " ".join(sorted(CLAIMED)))
except ImportError:
    print("jsonschema not available; written unvalidated")
