#!/usr/bin/env python3
"""Write the task files for one round of seeding sub-agents: tools/mkseedprompts.py <tag> [ids...]
Each agent gets /tmp/seed<tag>_prompt_<id>.txt (property text from properties.jsonl + the fixed template; nothing about
the checks) and its own scratch worktree /tmp/seed<tag>_<id> of /repo HEAD."""
import json
import os
import subprocess
import sys

V = os.path.dirname(os.path.dirname(os.path.abspath(__file__)))
tag = sys.argv[1]
ids = sys.argv[2:]
props = {}
for l in open(os.path.join(V, "properties.jsonl")):
    d = json.loads(l)
    props[d["id"]] = d
tmpl = open(os.path.join(V, "tools", "seed_prompt_template.txt")).read()
old_block = tmpl[tmpl.index("Property C20:"):tmpl.index("-----\n\nTask:")]
note = '''
Environment note: pymoca.__version__ is computed from git; with uncommitted changes in the checkout it ends in ".dirty", and parse() then bypasses its sqlite cache entirely. If your demo relies on the parse cache, set `import pymoca; pymoca.__version__ = "1.0.demo"` first and pass an explicit temporary `model_cache_folder`.
'''
extra = '''
Do not use `git stash` (the stash is shared between all worktrees of this repository and other people work in sibling worktrees): switch a change on and off with `git apply patch.diff` / `git apply -R patch.diff` or `git checkout -- .` instead.
Aim for variety: look for mechanisms in corners of the relevant code that ordinary models rarely reach (unusual but legal Modelica constructs, rarely used options or option combinations, second and later calls on the same objects, boundary sizes such as empty or single-element arrays, names with unusual but legal characters, deep nesting); avoid the most obvious one-token operator flips.
Prefer changes where two features that each work alone interact badly (for example an option combined with an unusual declaration form, a second feature of the same statement, or state kept between two calls), and changes in the less central of the relevant source files; a reviewer should find the patch plausible.
''' + (os.environ.get("SEED_EXTRA", ""))
for pid in ids or sorted(props):
    d = props[pid]
    block = "Property %s: %s\n\nStatement: %s\n\nQuantified over: %s\n\nRelevant source files: %s\n\n" % (
        pid, d["title"], d["statement"], d["quantifier"]["text"], ", ".join(d["anchors"]["files"]))
    t = tmpl.replace(old_block, block).replace("seed_C20", "seed%s_%s" % (tag, pid)).replace("home_C20", "home%s_%s" % (tag, pid))
    if pid in ("C01", "C02"):
        t += note
    t += extra
    open("/tmp/seed%s_prompt_%s.txt" % (tag, pid), "w").write(t)
    subprocess.run(["git", "-C", "/repo", "worktree", "add", "-q", "--detach", "/tmp/seed%s_%s" % (tag, pid), "HEAD"])
    print(pid, "ok")
