#!/usr/bin/env python3
"""Confirm a seeded change and run the checks against it.

usage: seedtest.py <property id> <seed dir produced by a sub-agent> <name> [--checks C04,C10] [--tier quick]
 1. in a scratch worktree of /repo HEAD (under /tmp): demo passes clean, fails with the patch,
    and the pinned test suite still passes with the patch;
 2. copies patch.diff / demo.py / notes.md to /verif/seeded/<name>/ ;
 3. applies the patch to /repo, runs the named checks, reverts /repo (git checkout -- .);
 4. writes /verif/seeded/<name>/meta.json with what was run and which checks fired."""
import json
import os
import shutil
import subprocess
import sys
import time

VERIF = os.path.dirname(os.path.dirname(os.path.abspath(__file__)))


def sh(cmd, **kw):
    return subprocess.run(cmd, shell=isinstance(cmd, str), capture_output=True, text=True, **kw)


def main():
    pid, seeddir, name = sys.argv[1:4]
    checks = [pid]
    tier = "quick"
    for i, a in enumerate(sys.argv):
        if a == "--checks":
            checks = sys.argv[i + 1].split(",")
        if a == "--tier":
            tier = sys.argv[i + 1]
    patch = os.path.join(seeddir, "patch.diff")
    demo = os.path.join(seeddir, "demo.py")
    wt = "/tmp/seedverify_%s_%d" % (name, os.getpid())
    meta = {"property": pid, "name": name, "source": "independent sub-agent given only the property text",
            "verified_at": time.strftime("%Y-%m-%dT%H:%M:%SZ", time.gmtime())}
    sh(["git", "-C", "/repo", "worktree", "add", "-q", "--detach", wt, "HEAD"])
    try:
        env = dict(os.environ, PYTHONPATH="%s/src:%s" % (wt, wt), HOME="/tmp/seedhome", XDG_CACHE_HOME="/tmp/seedhome/x")
        # run a copy of the demo from the same place inside the scratch worktree (some demos find the checkout
        # relative to their own path)
        dcopy = os.path.join(wt, "SEED", os.path.basename(os.path.normpath(seeddir)))
        os.makedirs(dcopy, exist_ok=True)
        shutil.copy(demo, os.path.join(dcopy, "demo.py"))
        demo = os.path.join(dcopy, "demo.py")
        r0 = sh(["/venv/bin/python", demo], env=env, cwd=wt, timeout=900)
        ap = sh(["git", "-C", wt, "apply", patch])
        if ap.returncode != 0:
            print("patch does not apply to HEAD:", ap.stderr[:500])
            meta["applies_to_head"] = False
            return 2
        r1 = sh(["/venv/bin/python", demo], env=env, cwd=wt, timeout=900)
        meta["demo_clean_exit"] = r0.returncode
        meta["demo_patched_exit"] = r1.returncode
        meta["demo_patched_output_tail"] = (r1.stdout + r1.stderr)[-600:]
        bl = sh(["/venv/bin/python", os.path.join(VERIF, "tools", "baseline.py"), wt], timeout=1800)
        meta["baseline_with_patch"] = bl.stdout.strip().splitlines()[0] if bl.stdout else bl.stderr[-300:]
        meta["baseline_ok"] = bl.returncode == 0
        print("demo clean=%d patched=%d ; %s" % (r0.returncode, r1.returncode, meta["baseline_with_patch"]))
    finally:
        sh(["git", "-C", "/repo", "worktree", "remove", "--force", wt])
    confirmed = meta["demo_clean_exit"] == 0 and meta["demo_patched_exit"] != 0 and meta["baseline_ok"]
    meta["confirmed"] = confirmed
    dest = os.path.join(VERIF, "seeded", name)
    os.makedirs(dest, exist_ok=True)
    for f in ("patch.diff", "demo.py", "notes.md"):
        if os.path.exists(os.path.join(seeddir, f)):
            shutil.copy(os.path.join(seeddir, f), os.path.join(dest, f))
    # run the checks against the patched /repo (or, with --scratch, against a patched scratch worktree of /repo HEAD,
    # with evidence and replay files sent elsewhere - several seeds can then be tested at the same time)
    scratch = "--scratch" in sys.argv
    target = "/repo"
    env = dict(os.environ)
    if scratch:
        target = "/tmp/seedscratch_%s_%d" % (name, os.getpid())
        sh(["git", "-C", "/repo", "worktree", "add", "-q", "--detach", target, "HEAD"])
        env["VERIF_REPO"] = target
        env["VERIF_OUT"] = os.path.join(VERIF, ".work", "seedscratch_" + name)
    st = sh(["git", "-C", target, "status", "--porcelain", "--untracked-files=no"])
    if st.stdout.strip():
        print("%s has uncommitted changes; refusing to apply the seed there" % target)
        return 2
    results = {}
    try:
        ap = sh(["git", "-C", target, "apply", patch])
        assert ap.returncode == 0, ap.stderr
        for c in checks:
            t0 = time.time()
            r = sh([os.path.join(VERIF, "check"), c, "--tier", tier], cwd=VERIF, timeout=7200, env=env)
            vio = [l for l in r.stdout.splitlines() if l.startswith("VIOLATION")]
            keys = sorted({l.split("key=")[1].split()[0] for l in r.stdout.splitlines() if l.strip().startswith("key=")})
            results[c] = {"exit": r.returncode, "violation_lines": len(vio), "keys": keys[:8], "wall_s": round(time.time() - t0, 1),
                          "summary": r.stdout.strip().splitlines()[-1] if r.stdout.strip() else ""}
            print(c, "exit", r.returncode, "violations", len(vio), keys[:4])
    finally:
        if scratch:
            sh(["git", "-C", "/repo", "worktree", "remove", "--force", target])
            shutil.rmtree(env["VERIF_OUT"], ignore_errors=True)
        else:
            sh(["git", "-C", "/repo", "checkout", "--", "."])
    meta["checks_run"] = results
    meta["caught_by"] = sorted(c for c, v in results.items() if v["exit"] == 1)
    meta["tier"] = tier
    with open(os.path.join(dest, "meta.json"), "w") as f:
        json.dump(meta, f, indent=1)
    # evidence files were rewritten by runs on a patched tree: the caller re-runs the checks on the clean tree
    print("confirmed=%s caught_by=%s" % (confirmed, meta["caught_by"]))
    return 0


if __name__ == "__main__":
    sys.exit(main())
