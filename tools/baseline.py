#!/usr/bin/env python3
"""Run the repository's pinned test suite (guard off) and compare with BASELINE.json."""
import json, os, subprocess, sys, tempfile, xml.etree.ElementTree as ET
repo = sys.argv[1] if len(sys.argv) > 1 else "/repo"
base = json.load(open("/root/.vp/BASELINE.json"))
out = tempfile.mktemp(suffix=".xml")
env = dict(os.environ); env.pop("PYMOCA_VERIF", None)
env["PYTHONPATH"] = os.path.join(repo, "src") + os.pathsep + repo
home = tempfile.mkdtemp(prefix="bl_home_")
env["HOME"] = home; env["XDG_CACHE_HOME"] = os.path.join(home, "xdg")
p = subprocess.run(["/venv/bin/python", "-m", "pytest", "-ra", "-q", "-p", "no:cacheprovider", "--timeout=900",
                    "--continue-on-collection-errors", "--junitxml=" + out], cwd=repo, env=env,
                   capture_output=True, text=True)
passed = set()
for tc in ET.parse(out).getroot().iter("testcase"):
    if not any(ch.tag in ("failure", "error", "skipped") for ch in tc):
        passed.add("%s::%s" % (tc.get("classname"), tc.get("name")))
os.remove(out)
subprocess.run(["rm", "-rf", home])
missing = sorted(set(base["stable_pass"]) - passed)
extra = sorted(passed - set(base["stable_pass"]))
print("passed %d ; baseline %d ; baseline tests now failing: %d ; newly passing: %d" % (
    len(passed), len(base["stable_pass"]), len(missing), len(extra)))
for m in missing: print("  NOW FAILING", m)
for e in extra: print("  newly passing", e)
sys.exit(1 if missing else 0)
