#!/usr/bin/env python3
"""Re-run the checks against every stored seeded change (regression of the checks themselves).

usage: seedregress.py [--jobs N] [--only C19,C20] [--match REGEX] [--tier quick]
For every /verif/seeded/<name>/ whose meta.json says it was confirmed and caught: apply patch.diff to a scratch
worktree of /repo HEAD under /tmp (skipped when the patch no longer applies, e.g. because a later fix: commit
touched the same lines), run the checks that caught it before (VERIF_REPO / VERIF_OUT point away from /repo and
/verif/evidence), remove the worktree.  Writes /verif/seeded/REGRESSION.json."""
import json
import os
import shutil
import subprocess
import sys
import time
from concurrent.futures import ThreadPoolExecutor

VERIF = os.path.dirname(os.path.dirname(os.path.abspath(__file__)))


def sh(cmd, **kw):
    return subprocess.run(cmd, capture_output=True, text=True, **kw)


def one(name, tier):
    d = os.path.join(VERIF, "seeded", name)
    try:
        meta = json.load(open(os.path.join(d, "meta.json")))
    except Exception:
        return name, {"status": "no-meta"}
    checks = meta.get("caught_by") or []
    if not meta.get("confirmed") or not checks:
        return name, {"status": "not-counted"}
    wt = "/tmp/seedregress_%s_%d" % (name, os.getpid())
    out = os.path.join(VERIF, ".work", "seedregress_" + name)
    sh(["git", "-C", "/repo", "worktree", "add", "-q", "--detach", wt, "HEAD"])
    try:
        ap = sh(["git", "-C", wt, "apply", os.path.join(d, "patch.diff")])
        if ap.returncode != 0:
            return name, {"status": "patch-no-longer-applies"}
        env = dict(os.environ, VERIF_REPO=wt, VERIF_OUT=out)
        res = {}
        for c in checks:
            t0 = time.time()
            r = sh([os.path.join(VERIF, "check"), c, "--tier", tier], cwd=VERIF, timeout=7200, env=env)
            keys = sorted({l.split("key=")[1].split()[0] for l in r.stdout.splitlines() if l.strip().startswith("key=")})
            res[c] = {"exit": r.returncode, "keys": keys[:4], "wall_s": round(time.time() - t0, 1)}
        caught = sorted(c for c, v in res.items() if v["exit"] == 1)
        return name, {"status": "caught" if caught else "MISSED", "caught_by": caught, "checks": res}
    finally:
        sh(["git", "-C", "/repo", "worktree", "remove", "--force", wt])
        shutil.rmtree(wt, ignore_errors=True)
        shutil.rmtree(out, ignore_errors=True)


def main():
    jobs, only, tier, match = 2, None, "quick", None
    for i, a in enumerate(sys.argv):
        if a == "--jobs":
            jobs = int(sys.argv[i + 1])
        if a == "--only":
            only = set(sys.argv[i + 1].split(","))
        if a == "--tier":
            tier = sys.argv[i + 1]
        if a == "--match":
            import re
            match = re.compile(sys.argv[i + 1])
    names = sorted(n for n in os.listdir(os.path.join(VERIF, "seeded")) if os.path.isdir(os.path.join(VERIF, "seeded", n))
                   and (only is None or n.split("-")[0] in only) and (match is None or match.search(n)))
    head = sh(["git", "-C", "/repo", "rev-parse", "--short", "HEAD"]).stdout.strip()
    vhead = sh(["git", "-C", VERIF, "rev-parse", "--short", "HEAD"]).stdout.strip()
    results = {}
    with ThreadPoolExecutor(jobs) as ex:
        for name, r in ex.map(lambda n: one(n, tier), names):
            results[name] = r
            print(name, r["status"], r.get("caught_by", ""), flush=True)
    path = os.path.join(VERIF, "seeded", "REGRESSION.json")
    old = {}
    if (only or match) and os.path.exists(path):
        old = json.load(open(path)).get("results", {})
    old.update(results)
    summary = {}
    for r in old.values():
        summary[r["status"]] = summary.get(r["status"], 0) + 1
    json.dump({"repo_head": head, "verif_head": vhead, "tier": tier, "when": time.strftime("%Y-%m-%dT%H:%M:%SZ", time.gmtime()),
               "summary": summary, "results": old}, open(path, "w"), indent=1, sort_keys=True)
    print("SUMMARY", summary)
    return 1 if summary.get("MISSED") else 0


if __name__ == "__main__":
    sys.exit(main())
