# executed by mkmanifest.py: claim(id, category, technique, level text, level note, design ref)
NOT_CLAIMED = {}

claim("C03", "exploration",
      "differential reference-model monitor on parser.parse (generated trees, printed text, value comparison)",
      "Thousands of generated expression trees (plus every type-valid ordered operator pair and every literal form) are printed, parsed by the real parser and compared by value with the tree they were printed from; both the committed generated parser and, when its ATN differs, the parser regenerated from the working-tree grammar are monitored. Sampling, not proof: the right level for an unbounded input space.",
      "trusts the mexpr evaluator/printer as the Modelica meaning of the generated subset and the AST adapter; java+antlr jar from /repo/antlr used to rebuild the grammar",
      "DESIGN.md section 4, C03")
