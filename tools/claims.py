# executed by mkmanifest.py: claim(id, category, technique, level text, level note, design ref)
NOT_CLAIMED = {}

claim("C01", "fault_enumeration",
      "history and fault-injection monitor at the parser.parse boundary against a real sqlite database, with the uncached parse as executable model and an offline checker over the database rows",
      "Generated histories (length 3-12 quick, up to 40 thorough, plus every ordered pair of fault/operation kinds) of parse calls with varying expiration/update flags, module reloads, version changes incl. a .dirty version, clock advances on a virtual clock behind time.time_ns, corrupt entries (empty, truncated, random bytes, pickle of a missing class - each verified not to unpickle), broken table layouts (7 kinds), corrupt/truncated/zero-length/deleted database files and poisoned rows (row for text T under a foreign version holding the tree of T'); after every parse the canonical graph digest is compared with an uncached parse, any escaping exception is a violation, and after every step the database rows are read back: no row for a text with a syntax error, no row holding None.",
      "only blobs verified not to unpickle are injected; the extension workload ext:fault-after-init omits the reload after file/layout faults",
      "DESIGN.md section 4, C01")

claim("C02", "exploration",
      "controlled schedule injection at SQL-statement granularity (sqlite3/os proxies in pymoca.parser, real sqlite underneath) plus free-running multi-process and multi-thread stress with delay/yield injection; every call compared with the uncached parse, database removal and integrity monitored",
      "2-3 worker threads call parse() on one cache folder under a scheduler that releases one worker per sqlite call: every schedule with <= 1 preemption (thorough: <= 2 preemptions, 3 workers) and seeded random schedule words over database states absent / existing-unchecked / existing-checked / existing-with-entry / wrong-layout x same or different texts; 2/4/8/16 real processes released by a file barrier with and without <= 5 ms delays at sqlite calls; 4-8 free-running threads with sys.monitoring LINE yield injection. Oracle: every call returns the digest of an uncached parse, no exception, no os.remove of the database, PRAGMA integrity_check ok and all rows unpickle afterwards.",
      "the database is never corrupt in this workload; failures after a >= 4.5 s lock wait are inconclusive; a worker not back from a sqlite call after 30 ms is treated as blocked on a lock",
      "DESIGN.md section 4, C02")

claim("C03", "exploration",
      "differential reference-model monitor on parser.parse (generated trees, printed text, value comparison)",
      "Thousands of generated expression trees (plus every type-valid ordered operator pair and every literal form) are printed, parsed by the real parser and compared by value with the tree they were printed from; both the committed generated parser and, when its ATN differs, the parser regenerated from the working-tree grammar are monitored. Sampling, not proof: the right level for an unbounded input space.",
      "trusts the mexpr evaluator/printer as the Modelica meaning of the generated subset and the AST adapter; java+antlr jar from /repo/antlr used to rebuild the grammar",
      "DESIGN.md section 4, C03")

claim("C11", "exploration",
      "reference-model monitor on generate()+simplify(): mflat reference residual vs CasADi residual at typed random points",
      "Thousands of generated flat models (scalar, Boolean, if-, for-, array, function-call and initial equations over every operator and builtin reachable through OP_MAP/exitExpression) are compiled by the real backend; dae and initial residual functions are evaluated at typed random points and compared per equation with an independent Python evaluator. Held = no mismatch and no generation failure on everything generated; coverage per feature/operator is in the evidence.",
      "trusts the mflat/mexpr evaluator, CasADi's evaluation of its own functions, and the conditioning guard (ill-conditioned points are discarded, counted)",
      "DESIGN.md section 4, C11")

claim("C23", "exploration",
      "exhaustive window enumeration with a reject/accept oracle and a value monitor on the compiled residual",
      "Every array shape up to 4 / 3x3, every constant subscript and slice bound in a window around the valid range, loop ranges and index arithmetic, in 12 syntactic contexts (about 3 400 models) is compiled by the real backend: out-of-range must raise, in-range must compile and select exactly the reference elements (checked by value). The window is enumerated completely in both tiers; thorough adds expression and parameter subscripts.",
      "trusts the mflat reference for in-range value checks; 'any exception' counts as rejection; empty ranges are outside the property",
      "DESIGN.md section 4, C23")

claim("C10", "exploration",
      "reference-model monitor on generate(): classification, der_states pairing, order and outputs vs the generator's own knowledge",
      "Thousands of generated models mixing every prefix (and prefix pair) with every elementary type, with der() applied directly, inside expressions, to nested component variables and only in initial equations; the seven variable lists, der_states and outputs of the real Model are compared with the classification the property's precedence gives.",
      "declaration order is compared for single-class models only; String variables are only generated as parameters/constants",
      "DESIGN.md section 4, C10")

claim("C13", "exploration",
      "reference-model monitor on Variable attributes and variable_metadata_function at random parameter points",
      "Generated models whose variables in all five metadata lists carry absent/literal/array/affine/non-affine attribute expressions; every attribute is read from the Variable object and from variable_metadata_function(p) at 5 parameter points (incl. 0 and negatives) and compared with the reference evaluation; the evidence counts how often the affine rebuild vs the generic path produced the function.",
      "attribute expressions reference scalar Real parameters only; NaN compares equal to NaN",
      "DESIGN.md section 4, C13")

claim("C22", "exploration",
      "accept/reject oracle at the transfer_model boundary plus value monitor on delay_arguments_function",
      "Generated models with delay() calls whose durations depend on each variable category (singly and mixed, inside and outside for-loops, with and without expand_vectors) are compiled through the real transfer_model; acceptance must match the generator's knowledge of the duration's dependencies and for accepted models the (expression, duration) pairs returned by delay_arguments_function must equal the reference values.",
      "durations contain no cancelling terms; pairs are compared as a multiset; any exception counts as rejection (types recorded in the evidence)",
      "DESIGN.md section 4, C22")

claim("C17", "exploration",
      "shadow signed union-find beside the real object + icontract postconditions, breadth-first over operation histories up to state fix-point, plus long random histories",
      "Every reachable observable state of the real AliasRelation over 4 names x 2 signs is visited (breadth-first, the state fix-point is reached and reported) and every operation is applied in every state; after each operation aliases(), canonical_signed(), canonical_variables and iteration are compared with a shadow signed union-find, copies are checked for independence in both directions, and icontract postconditions on add/remove/copy check symmetry and the negation mirror. Random histories of length 60 over 8 names extend beyond the bound.",
      "exhaustive only inside the 4-name universe (fix-point of observable fingerprints); histories relating a variable to its own negation are excluded by the property's precondition",
      "DESIGN.md section 4, C17")

claim("C05", "exploration",
      "history monitor on one parsed tree with the fresh-parse result as executable model (flatten / casadi / sympy / xml / CLI requests)",
      "Sequences of flatten and backend-generate requests are executed on one parsed tree (every class of every test model in all ordered pairs, generated libraries, random longer sequences in thorough) and each step's canonical result or exception type is compared with the same request on a fresh parse; the compiler CLI is called with several -m and compared with the models alone. An icontract snapshot/postcondition on tree.flatten counts calls that mutate their input (diagnostic only).",
      "results are compared through a canonical projection (no parent links, no import memo); CasADi results by variable lists and printed equations",
      "DESIGN.md section 4, C05")

claim("C07", "exploration",
      "reference-model monitor on tree.flatten: independent reference instantiation (vf.mlib) vs the real flat class",
      "Generated libraries (hierarchies to depth 4, repeated instances, extends chains and multiple extends, nested class definitions, extends from an enclosing scope, type aliases, arrays of scalars, prefixes) - every class is flattened by the real code and by an independent reference; variable names, elementary types, prefixes, dimensions and the multiset of (initial) equations by value at random points are compared. Two scoping extensions are generated separately and are known findings.",
      "trusts the reference instantiation in vf/mlib.py; equations compared as value multisets at 4 points",
      "DESIGN.md section 4, C07")

claim("C06", "exploration",
      "history monitor over tree handles with a parallel library description as executable model; structural copy invariant as diagnostic",
      "Random histories of deepcopy / add-remove class, symbol, equation / flatten over the original, copies and copies of copies of generated libraries; the harness applies every edit to a per-handle description and compares each flatten with flatten(parse(print(description))). A structural invariant (parent chains stay inside the copy, no node shared with the source) is evaluated after every deepcopy and reported as a diagnostic.",
      "flatten runs on a pickle clone of the handle; flat results are compared through a semantic projection (not Symbol.order)",
      "DESIGN.md section 4, C06")

claim("C08", "exploration",
      "reference merge monitor (vf.mlib) + metamorphic twin monitor over modification spellings on tree.flatten",
      "Generated chains of class-typed components with an extends level and a type definition, where a parameter value and the attributes of a variable are modified at 2-4 competing levels with literal and name-referencing expressions (same name in inner and outer scope); every library is printed twice with independent spellings (nested / dotted / mixed). Each accepted spelling is compared with the reference merge by value, and two accepted spellings with each other; a rejected spelling is acceptable.",
      "trusts the merge order implemented in vf/mlib.py (type definition < declaration < extends inner-to-outer < enclosing components inner-to-outer)",
      "DESIGN.md section 4, C08")

claim("C09", "exploration",
      "reference connection-set model (union-find over inside/outside elements) vs flat equations, compared as solution sets by exact rank computation",
      "Generated connection graphs (chains, stars, cycles, redundant/reversed clauses, set merges, outside connectors, sub-models connected inside, connector classes with 1-3 potential and flow variables and a parameter member; every clause permutation for small graphs) are flattened by the real code; the coefficient rows of the flat equations are extracted numerically and rank(A)=rank(B)=rank([A;B]) is decided exactly over fractions against the Modelica connection-set system.",
      "scalar connectors only; sub-model connectors connected inside are also connected outside so that 'in no connection' is unambiguous",
      "DESIGN.md section 4, C09")

claim("C27", "exploration",
      "metamorphic monitor over all merge-order permutations and both real discovery paths, with the unsplit library as reference",
      "Generated package libraries (package constants, nested package, models using/extending each other) are split into 2-4 files with within clauses; the files are merged with Tree.extend in every permutation and through tools.compiler.parse_all and the CasADi API directory walk under two file-name layouts; every model must flatten identically in every order and identically to the unsplit text.",
      "flat results compared through a semantic projection; directory walk order is only varied through file names",
      "DESIGN.md section 4, C27")

claim("C04", "exploration",
      "reference-model monitor on parser.parse (field-by-field comparison with the generator's class description) + aliasing probe + duplicate rejection",
      "Generated class texts with multi-declarator clauses (own subscripts, modifications, comments), every prefix and prefix pair, type subscripts, interleaved public/protected sections, several (initial) equation/algorithm sections in any order, nested classes two deep, extends with modifiers and the four import forms are parsed by the committed parser (and the regenerated one when its ATN differs) and compared with the description; on a pickle clone one symbol is mutated and no other symbol may change; duplicate declarations must be rejected.",
      "expressions inside declarations and sections are compared by value (their shape is C03's subject); default-section visibility only has to be consistent and not PROTECTED",
      "DESIGN.md section 4, C04")

claim("C24", "exploration",
      "execution monitor on the generated SymPy module (recording stub runtime) + reference residual and classification comparison",
      "Generated models (+ - * / ^, unary minus, der, sin/cos/tan, time, nested parenthesised sub-expressions, sub-component dotted names, names colliding with Python builtins / mangled names, discrete variables) are translated by the real SymPy generator; the module must compile and execute, every entry of eqs is evaluated numerically by substitution and compared with lhs-rhs of the flat equation, the six lists are compared with the flat classification as duplicate-free sets and distinct variables must have distinct symbols.",
      "compute_fg is stubbed; names are compared modulo the backend's mangling; list order not compared",
      "DESIGN.md section 4, C24")

claim("C25", "exploration",
      "lock-step structural monitor: XML output (parsed with xml.etree) vs the flat class from tree.flatten",
      "Generated models with unary/n-ary operators, 1- and 2-argument calls, der, literals (incl. strings with XML metacharacters and signed numbers), dotted names and every variability are translated by the real XML generator; the output must be well-formed, contain one component per flat symbol with name/builtin/variability/literal start and value, and one equal element per flat equation whose element tree matches the flat expression node for node and operand for operand, in order.",
      "the flat model is tree.flatten of a fresh parse; schema validation impossible offline",
      "DESIGN.md section 4, C25")

claim("C26", "exploration",
      "outcome monitor on tools.compiler.main in one subprocess per invocation against the error count implied by the generated scenario",
      "Generated stage-pure invocations (usage errors, files with syntax errors, failing models of three kinds under no target / sympy / casadi, argparse errors, empty directories, success) run the real main() in a subprocess that reports whether it returned, called sys.exit or let an exception escape; the outcome must equal the scenario's error count, and for several -m the joint count must equal the sum of the models alone.",
      "counts for invocations mixing error stages are not defined by the property and only compared with each other",
      "DESIGN.md section 4, C26")

claim("C12", "exploration",
      "metamorphic monitor over the 8 representation-option combinations with (unroll, inline, no expand) as reference",
      "Every generated model (at least one for-equation and one user-function call, some with delay) is compiled under all 8 combinations of unroll_loops x inline_functions x expand_mx; names, order, python types, shapes and attribute values of every variable list, outputs and delay states must be identical and the residual, initial-residual, metadata and delay-argument functions must agree numerically at 5 typed, well-conditioned points.",
      "Booleans sampled in {0,1}; points the reference evaluator finds ill-conditioned are discarded (algebraically equivalent representations may differ there)",
      "DESIGN.md section 4, C12")

claim("C18", "exploration",
      "differential monitor: expanded vs unexpanded compile of the same model under the reference renaming",
      "Generated models with 1-D and non-square 2-D arrays in every variable category, component arrays holding arrays, derivatives of arrays, array-valued/scalar attributes, array outputs and delayed array expressions are compiled without expand_vectors, with it and with it plus expand_mx; scalar names and order, per-element attributes, outputs, delay states and the residuals / delay arguments at renamed random points must agree.",
      "the unexpanded model is the reference; generated delay symbols may be indexed [i] or [i,1]",
      "DESIGN.md section 4, C18")

claim("C14", "exploration",
      "solution-preservation monitor on Model.simplify over models with a constructed unique solution and a pairwise covering design of option subsets",
      "Generated square nonsingular models (affine diagonally dominant or triangular nonlinear, decorated with alias chains, signed aliases, constant assignments, eliminable variables, factored equations, if-equations, parameter expressions) are simplified under option subsets in which every pair of the 12 options occurs; the known solution must still satisfy the simplified residual (S1), the simplified system must keep a full-rank Jacobian in its remaining unknowns (S2), and every recorded alias / constant value must hold at the solution (S3). Exceptions and warnings count as reported failure.",
      "parameters and constants fixed at declared values; local uniqueness at w* stands for 'no solution gained'",
      "DESIGN.md section 4, C14")

claim("C15", "exploration",
      "structural monitor on Model.simplify: balance (unknowns - equations) before/after and constructibility of the four model functions",
      "Same generated square nonsingular models and covering design as C14; after simplify the difference between the number of unknown elements and residual elements must be unchanged and the residual, initial-residual, metadata and delay-argument functions must be constructible (CasADi rejects free variables, so a reference to an eliminated variable is observable).",
      "an exception or warning from simplify itself is a reported failure under C14's contract",
      "DESIGN.md section 4, C15")

claim("C16", "exploration",
      "interval-arithmetic reference over the alias classes reported by the real alias relation, compared with the canonical Variable and the metadata function",
      "Generated models with 2-6 alias equations (chains, positive/negative links, canonicals among states, inputs, derivatives and algebraics) whose members carry random min/max/nominal/fixed/start are simplified with detect_aliases; for every class the canonical variable's bounds must be the sign-adjusted intersection, its nominal the maximum, fixed the disjunction, and its start its own or an alias's sign-adjusted explicit start.",
      "the choice of canonical variable is the implementation's; any member's explicit start is accepted when the canonical has none",
      "DESIGN.md section 4, C16")

claim("C19", "exploration",
      "differential monitor at the transfer_model boundary: fresh compile vs pickle-cache load vs code-generated load (fresh subprocess per loader)",
      "Generated models (parameter-dependent attributes, alias equations, delays, string parameters, loops, functions) under 7 option sets: a fresh compile is compared with the CachedModel returned by a second transfer_model(cache=True) and, for a subset, with models loaded from code-generated shared libraries in fresh subprocesses - variable lists (names, order, shapes, python types, aliases, attributes at 5 parameter points), string parameters/constants, outputs, delay states, alias relation, the four functions at 5 typed points and the delay arguments of the model object. The number of actual cache loads is a required monitor.",
      "cache=True forces expand_mx, so its reference is a fresh compile with expand_mx; evaluation points are deterministic functions of symbol names",
      "DESIGN.md section 4, C19")

claim("C20", "exploration",
      "history monitor at the transfer_model boundary with a logical modification-time clock and the uncached compile of the current sources as executable model",
      "Random histories of edits to the model file, to a library file, additions of a library file in a sub-folder, option flips (every simplification/representation option has something to act on in the model), version changes and transfer_model calls (pickle cache in-process; code generation with one subprocess per step); after every transfer the result is compared with an uncached compile of the current sources and options. Every edit gets a logical mtime strictly later than the cache.",
      "equal modification times are never generated; a changed library path always comes with files newer than the cache",
      "DESIGN.md section 4, C20")

claim("C21", "fault_enumeration",
      "crash/fault injection at the file boundary (open() wrapper crashing after n bytes, strace SIGKILL, post-hoc truncation/garbage) and paused-writer interleavings, with recovery compared against a fresh compile",
      "For generated models the cache write is crashed after n bytes (quick: ~20 offsets per model incl. 0, 1 and L-1; thorough: every offset for a quarter of the models), complete cache files are truncated at the same offsets or replaced by empty/garbage/garbage-tail content, a child process is SIGKILLed by strace at the write/rename system call, and a writer thread is paused inside its write while a reader runs a complete transfer_model; after every fault the next two transfer_model(cache=True) calls must return models equal to a fresh compile.",
      "compile step memoised per source (cache logic unmodified); a crash leaves exactly the first n bytes on disk; codegen intermediate files are not crash-enumerated",
      "DESIGN.md section 4, C21")
