"""C24 - SymPy backend emits code with the flat model's meaning.

Monitor on backends.sympy.generator.generate: the generated source must compile and execute (with
pymoca.backends.sympy.runtime replaced by a recording stub OdeModel); each entry of eqs is evaluated
by substituting numbers for derivatives, dynamic symbols, symbols and t and compared with the
reference residual lhs-rhs; the six lists are compared with the reference classification as
duplicate-free sets; the Python symbols of distinct Modelica variables must be distinct."""
import logging
import sys
import types

import numpy as np

from vf import mexpr
from vf.genflat import num, var
from vf.worker import exc_sig

LEVEL = "exploration"
RULE = ("generated models over + - * / ^, unary minus, der, sin/cos/tan and time with nested parenthesised "
        "sub-expressions of every operator pair, der() as a call argument, names of 90+ characters, one level of sub-components (dotted names), names colliding with "
        "Python builtins / dict attributes and with mangled dotted names; distinct = digest of model text; "
        "non-trivial = an equation whose right-hand side needs parentheses (an operator below a tighter-binding one)")
ASSUMPTIONS = ["compute_fg (symbolic solving) is stubbed out: the property is about the emitted lists and equations",
               "list order is not compared (it follows Symbol.order of the declaring classes)"]
REQUIRED_MONITORS = ["modules_executed", "equation_values_compared", "list_comparisons"]
BUDGET = {"quick": 50, "thorough": 700}

PLAIN = ["x", "y", "z", "w", "v_x", "q1", "r2"]
TRICKY = ["abs", "sum", "print", "keys", "copy", "items", "get", "pop", "min", "len", "values"]


class StubOde:
    def __init__(self):
        import sympy
        import sympy.physics.mechanics as mech
        self.t = mech.dynamicsymbols._t
        for k in ("x", "u", "y", "p", "c", "v"):
            setattr(self, k, sympy.Matrix([]))
        self.x0, self.u0, self.p0, self.c0, self.eqs = {}, {}, {}, {}, []
        self.f = self.g = None

    def compute_fg(self):
        pass


def install_stub():
    m = types.ModuleType("pymoca.backends.sympy.runtime")
    m.OdeModel = StubOde
    sys.modules["pymoca.backends.sympy.runtime"] = m


def needs_parens(e, parent_level=0):
    t = e[0]
    if t == "bin":
        lv = mexpr.LEVEL[e[1]]
        if lv < parent_level:
            return True
        return needs_parens(e[2], lv) or needs_parens(e[3], lv + (0 if e[1] in "+*" else 1))
    if t in ("neg", "pos"):
        return parent_level > 5 or needs_parens(e[1], 6)
    if t == "call":
        return any(needs_parens(a, 0) for a in e[2])
    if t == "der":
        return needs_parens(e[1], 0)
    return False


def gen_case(rng):
    tags = set()
    names = rng.sample(PLAIN, rng.randint(2, 4))
    coll = None
    k = rng.random()
    if k < 0.12:
        names += rng.sample(TRICKY, rng.randint(1, 2))
        tags.add("names:python-builtin-or-dict-attribute")
    elif k < 0.18:
        coll = rng.choice(["dotted-vs-double-underscore", "builtin-suffix", "parameter-named-t"])
        tags.add("ext:name-collision:" + coll)
    elif k < 0.22:
        tags.add("ext:discrete-variable")
    prefixes = {}
    decls = []
    sub = rng.random() < 0.35
    flat = []     # (flat name, category) category in state/var/param/const/input ; output flag separately
    outputs = set()
    allnames = []
    for n in names:
        pf = rng.choice([[], [], [], ["parameter"], ["constant"], ["input"], ["output"]])
        prefixes[n] = pf
        val = " = %s" % round(rng.uniform(0.5, 4), 2) if set(pf) & {"parameter", "constant"} else ""
        if val and rng.random() < 0.2:
            # a negative value is a unary expression, not a literal
            val = " = -%s" % round(rng.uniform(0.5, 4), 2)
            tags.add("value:negative")
        elif not pf and rng.random() < 0.12:
            val = "(start = %s%s)" % (rng.choice(["-", ""]), round(rng.uniform(0.5, 4), 1))
            tags.add("attr:start")
        decls.append("  %sReal %s%s;" % ("".join(p + " " for p in pf), n, val))
        allnames.append(n)
    if rng.random() < 0.25:
        # two variables of the same kind whose names differ only by a trailing underscore
        a_, b_ = rng.choice([("g", "g_"), ("k", "k_"), ("m", "m__")])
        pf = rng.choice([[], [], ["parameter"], ["input"]])
        for n in (a_, b_):
            prefixes[n] = list(pf)
            val = " = %s" % round(rng.uniform(0.5, 4), 2) if "parameter" in pf else ""
            decls.append("  %sReal %s%s;" % ("".join(p_ + " " for p_ in pf), n, val))
            allnames.append(n)
            names.append(n)
        tags.add("names:differ-only-by-trailing-underscore")
    if rng.random() < 0.12:
        # a very long name (deeply nested components flatten to such names): longer than any line width a code
        # generator might wrap at
        ln = "longName" + "".join(rng.choice(["Stage", "Shaft", "Bearing", "Friction", "Gearbox", "Axle"]) for _ in range(rng.randint(12, 20)))
        pf = rng.choice([[], [], ["parameter"], ["input"]])
        prefixes[ln] = list(pf)
        decls.append("  %sReal %s%s;" % ("".join(p_ + " " for p_ in pf), ln, " = 1.5" if pf == ["parameter"] else ""))
        allnames.append(ln)
        names.append(ln)
        tags.add("names:longer-than-90-characters")
    if "ext:discrete-variable" in tags:
        decls.append("  discrete Real d9;")
        prefixes["d9"] = ["discrete"]
        allnames.append("d9")
    if coll == "dotted-vs-double-underscore":
        decls.append("  Real c1__x;")
        prefixes["c1__x"] = []
        allnames.append("c1__x")
        sub = True
    if coll == "parameter-named-t":
        # the runtime's symbol for time is sympy.symbols("t"), and so is a parameter or constant named t
        pf = [rng.choice(["parameter", "constant"])]
        decls.append("  %s Real t = %s;" % (pf[0], round(rng.uniform(0.5, 4), 2)))
        prefixes["t"] = pf
        allnames.append("t")
    if coll == "builtin-suffix":
        for n in ("copy", "copy_"):
            if n not in allnames:
                decls.append("  Real %s;" % n)
                prefixes[n] = []
                allnames.append(n)
    pre = ""
    if sub:
        pre = "model C\n  Real x;\n  parameter Real k = 2;\nend C;\n\n"
        decls.append("  C c1;")
        prefixes["c1.x"] = []
        prefixes["c1.k"] = ["parameter"]
        allnames += ["c1.x", "c1.k"]
        tags.add("sub-component-dotted-names")
    unknowns = [n for n in allnames if not (set(prefixes[n]) & {"parameter", "constant", "input"})]
    if not unknowns:
        decls.append("  Real s9;")
        prefixes["s9"] = []
        allnames.append("s9")
        unknowns = ["s9"]
    leaves = [var(n) for n in allnames] + [var("time")]
    g = mexpr.Gen(rng, leaves, [], funcs1=("sin", "cos", "tan") + (() if "abs" in allnames else ("abs",)), funcs2=(), allow_if=False,
                  arith=("+", "-", "*", "/", "^"), int_literals=True)
    eqs = []
    states = set()
    nontrivial = False
    for i in range(rng.randint(1, 4)):
        tgt = rng.choice(unknowns) if unknowns else allnames[0]
        if rng.random() < 0.5:
            lhs = ("der", var(tgt))
            states.add(tgt)
            tags.add("der:lhs")
        else:
            lhs = var(tgt)
        rhs = g.real(rng.randint(1, 4))
        if rng.random() < 0.15 and unknowns:
            s2 = rng.choice(unknowns)
            rhs = ("bin", "+", rhs, ("der", var(s2)))
            states.add(s2)
            tags.add("der:inside-expression")
        if rng.random() < 0.15 and unknowns:
            # a derivative as the direct argument of a function call
            s2 = rng.choice(unknowns)
            rhs = ("bin", rng.choice("+-*"), rhs, ("call", rng.choice(["sin", "cos"]), [("der", var(s2))]))
            states.add(s2)
            tags.add("der:as-call-argument")
        ins = [n for n in allnames if prefixes[n] == ["input"] and "." not in n]
        if ins and rng.random() < 0.3:
            # a differentiated input stays an input
            rhs = ("bin", "+", rhs, ("bin", "*", num(2), ("der", var(rng.choice(ins)))))
            tags.add("der:of-input")
        if needs_parens(rhs):
            nontrivial = True
        eqs.append((lhs, rhs))
    for k_ in g.used:
        tags.add("op:" + k_)
    text = pre + "model M\n" + "\n".join(decls) + "\nequation\n" + "".join(
        "  %s = %s;\n" % (mexpr.to_text(l), mexpr.to_text(r)) for l, r in eqs) + "end M;\n"
    # reference classification
    ref = {k: set() for k in ("x", "v", "p", "c", "u", "y")}
    for n in allnames:
        pf = prefixes[n]
        top = "." not in n
        if "constant" in pf:
            ref["c"].add(n)
        elif "parameter" in pf:
            ref["p"].add(n)
        elif "input" in pf and top:
            ref["u"].add(n)
        elif n in states:
            ref["x"].add(n)
        else:
            ref["v"].add(n)
        if "output" in pf and top and not (set(pf) & {"constant", "parameter"}):
            ref["y"].add(n)
    return text, eqs, {k: sorted(v) for k, v in ref.items()}, allnames, tags, nontrivial


def sym_name(s):
    n = getattr(s, "name", None)
    if n is None:
        n = s.func.__name__ if hasattr(s, "func") else str(s)
    return n


def norm(n):
    """name modulo the backend's mangling (how a name is made Python-safe is a representation detail;
    that distinct variables stay distinct is checked separately)."""
    return n.replace("__", ".").rstrip("_")


def check(ctx, text, eqs, ref, allnames, tags, rng):
    import sympy
    from pymoca import parser
    from pymoca.backends.sympy import generator as sg
    exts = sorted(t for t in tags if t.startswith("ext:"))
    feat = exts[0] if exts else "core"
    case = {"text": text, "eqs": eqs, "ref": ref, "names": allnames, "tags": sorted(tags)}
    try:
        tree = parser.parse(text, bypass_cache=True)
        if tree is None:
            raise SyntaxError("generated model rejected by the parser")
        src = sg.generate(tree, "M")
    except Exception as e:
        ctx.violation("C24:%s:generate-raises:%s" % (feat, exc_sig(e)), "generate raised %r\n%s" % (e, text), case)
        return
    case["generated"] = src[-3000:]
    try:
        code = compile(src, "<generated M>", "exec")
    except SyntaxError as e:
        ctx.violation("C24:%s:generated-module-is-not-valid-python" % feat, "%s\n%s\n%s" % (e, text, src[-1500:]), case)
        return
    install_stub()
    ns = {}
    try:
        exec(code, ns)
        inst = ns["M"]()
    except Exception as e:
        ctx.violation("C24:%s:generated-module-fails-to-execute:%s" % (feat, type(e).__name__),
                      "executing the generated module raised %r\n%s\n%s" % (e, text, src[-1500:]), case)
        return
    ctx.monitor("modules_executed")
    # lists
    got = {}
    symbols = {}
    for k in ("x", "v", "p", "c", "u", "y"):
        lst = list(getattr(inst, k))
        nm = [norm(sym_name(s)) for s in lst]
        got[k] = nm
        if k != "y":
            for s, n in zip(lst, nm):
                symbols.setdefault(n, []).append(s)
    ctx.monitor("list_comparisons")
    collide = len({norm(n) for n in allnames}) != len(allnames)
    # distinct variables -> distinct symbols
    allsyms = [s for k in ("x", "v", "p", "c", "u") for s in getattr(inst, k)]
    if len(set(allsyms)) != len(allsyms) or len(allsyms) != len(allnames):
        ctx.violation("C24:%s:variables-share-a-python-symbol" % feat,
                      "%d Modelica variables, %d distinct sympy symbols in x,v,p,c,u (%d entries)\n%s" % (
                          len(allnames), len(set(allsyms)), len(allsyms), text), case)
        return
    if any(s_ == inst.t for s_ in allsyms):
        ctx.violation("C24:%s:variable-shares-the-symbol-of-time" % feat,
                      "a variable of the model is the same sympy symbol as time (self.t)\n%s" % text, case)
        return
    if collide:
        ctx.discard("case:names-equal-modulo-mangling:lists-and-equations-not-compared")
        return
    ref = {k: sorted(norm(n) for n in v) for k, v in ref.items()}
    for k in ("x", "v", "p", "c", "u", "y"):
        if len(got[k]) != len(set(got[k])):
            ctx.violation("C24:%s:list-has-duplicates:%s" % (feat, k), "list %s = %s\n%s" % (k, got[k], text), case)
            return
        if sorted(got[k]) != ref[k]:
            ctx.violation("C24:%s:list-mismatch:%s" % (feat, k), "list %s = %s, flat model classification gives %s\n%s" % (
                k, sorted(got[k]), ref[k], text), case)
            return
    # equations
    if len(inst.eqs) != len(eqs):
        ctx.violation("C24:%s:equation-count" % feat, "%d entries in eqs, %d flat equations\n%s" % (len(inst.eqs), len(eqs), text), case)
        return
    t = inst.t
    for trial in range(3):
        env = {"time": round(rng.uniform(0.3, 2), 3)}
        for n in allnames:
            env[n] = round(rng.uniform(0.5, 3), 3)
            env["der(%s)" % n] = round(rng.uniform(-2, 2), 3)
        subs_d, subs_s = {}, {t: env["time"]}
        for n in allnames:
            s = symbols[norm(n)][0]
            if hasattr(s, "diff") and s.free_symbols and t in s.free_symbols:
                subs_d[s.diff(t)] = env["der(%s)" % n]
            subs_s[s] = env[n]
        for i, (lhs, rhs) in enumerate(eqs):
            try:
                exp = float(mexpr.evaluate(lhs, env)) - float(mexpr.evaluate(rhs, env))
            except mexpr.Undefined as u:
                ctx.discard("point:" + str(u))
                continue
            try:
                val = inst.eqs[i]
                if hasattr(val, "subs"):
                    val = val.subs(subs_d).subs(subs_s).subs({t: env["time"]})
                gotv = complex(sympy.N(val))
            except Exception as e:
                ctx.violation("C24:%s:equation-unevaluable:%s" % (feat, type(e).__name__),
                              "eqs[%d] = %s cannot be evaluated: %r\n%s" % (i, inst.eqs[i], e, text), case)
                return
            ctx.monitor("equation_values_compared")
            if abs(gotv.imag) > 1e-9 or abs(gotv.real - exp) > 1e-8 * max(1.0, abs(exp)):
                ctx.violation("C24:%s:equation-value" % feat,
                              "eqs[%d] = %s evaluates to %s, flat equation %s = %s gives %s\n%s" % (
                                  i, inst.eqs[i], gotv, mexpr.to_text(lhs), mexpr.to_text(rhs), exp, text), case)
                return


def one(ctx, rng, k):
    text, eqs, ref, allnames, tags, nt = gen_case(rng)
    ctx.case(text, nt, {"model": text} if k < 1 else None)
    for t in tags:
        ctx.cover(t)
    check(ctx, text, eqs, ref, allnames, tags, rng)


def run_shard(ctx):
    logging.disable(logging.CRITICAL)
    for k in range(ctx.n(3000, 40000)):
        if ctx.out_of_time():
            break
        ctx.guarded(one, ctx, ctx.rng, k, timeout=60)


def replay(ctx, case):
    logging.disable(logging.CRITICAL)
    from checks.c03_expr_precedence import _retree
    eqs = [(_retree(l), _retree(r)) for l, r in case["eqs"]]
    check(ctx, case["text"], eqs, case["ref"], case["names"], set(case["tags"]), ctx.rng)
