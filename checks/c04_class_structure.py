"""C04 - parsed class structure reflects the source declarations.

Reference-model monitor on parser.parse: the generator's class description is compared field by
field with the parsed ast.Class (components with name/type/prefixes/dimensions/visibility/order/
comment/modifications, equations and statements per section in source order, nested classes,
extends, imports), plus an aliasing probe on a pickle clone (mutating one symbol's prefixes /
dimensions / type must not change any other symbol) and duplicate-declaration rejection."""
import logging
import pickle

from vf import adapters, canon, g4, mexpr
from vf.genflat import num, var
from vf.worker import exc_sig

LEVEL = "exploration"
RULE = ("generated class texts: component clauses with 1-4 declarators (per-declarator subscripts, modifications, "
        "comments), all type prefixes incl. pairs, interleaved public/protected sections, several equation / initial "
        "equation / algorithm / initial algorithm sections in any order, nested classes two deep, extends with "
        "modifiers, four import forms; 5% duplicate declarations; distinct = digest of text; non-trivial = >=2 "
        "component clauses of which one has >=2 declarators, or >=2 visibility/equation sections")
ASSUMPTIONS = ["the first (unlabelled) section's visibility only has to be one consistent value different from PROTECTED",
               "Symbol.order is compared as rank order within the class, not by absolute value"]
REQUIRED_MONITORS = ["classes_compared", "symbols_compared", "aliasing_probes", "duplicate_cases"]
BUDGET = {"quick": 45, "thorough": 700}

TYPES = ["Real", "Integer", "Boolean", "Real", "Real"]
PREFIX_SINGLE = [[], [], [], ["parameter"], ["constant"], ["discrete"], ["input"], ["output"], ["flow"]]
PREFIX_PAIRS = [["parameter", "input"], ["flow", "discrete"], ["constant", "output"], ["discrete", "input"]]


class Gen:
    def __init__(self, rng, ext=None):
        self.r, self.ext = rng, ext
        self.n = 0
        self.tags = set()

    def fresh(self, p="v"):
        self.n += 1
        return "%s%d" % (p, self.n)

    def expr(self, names, depth=1):
        g = mexpr.Gen(self.r, [var(n) for n in names] or [num(1)], [], funcs1=("sin", "cos"), funcs2=(),
                      allow_if=False, arith=("+", "-", "*"))
        return g.real(depth)

    def clause(self, real_names):
        r = self.r
        typ = r.choice(TYPES)
        pf = list(r.choice(PREFIX_SINGLE))
        if r.random() < 0.12:
            pf = list(r.choice(PREFIX_PAIRS))
            self.tags.add("prefix-pair")
        if typ != "Real" and "flow" in pf:
            pf = [p for p in pf if p != "flow"]
        clause_dims = None
        if r.random() < 0.12:
            clause_dims = [num(r.randint(2, 4))]
            self.tags.add("type-subscripts")
        decls = []
        for _ in range(r.choice([1, 1, 2, 3, 4])):
            nm = self.fresh()
            dims = None
            if r.random() < 0.3:
                dims = [num(r.randint(1, 4)) for _ in range(r.randint(1, 2))]
                self.tags.add("declarator-subscripts")
            mods = []
            if typ == "Real" and r.random() < 0.45:
                for a in r.sample(["start", "min", "max", "nominal"], r.randint(1, 2)):
                    if dims and r.random() < 0.4 and len(dims) == 1:
                        mods.append((a, ("arr", [num(r.randint(0, 9)) for _ in range(dims[0][1])])))
                    else:
                        mods.append((a, num(r.randint(0, 20)) if r.random() < 0.6 else self.expr(real_names[:3])))
                self.tags.add("declarator-modification")
            if r.random() < 0.1:
                mods.append(("fixed", ("bool", r.random() < 0.5)))
            value = None
            if set(pf) & {"parameter", "constant"} or r.random() < 0.1:
                value = {"Real": num(round(r.uniform(0, 9), 2)), "Integer": num(r.randint(0, 9)),
                         "Boolean": ("bool", r.random() < 0.5)}[typ]
                if dims:
                    value = None
            comment = None
            if r.random() < 0.3:
                comment = "c %s %d" % (nm, r.randint(0, 99))
                self.tags.add("declarator-comment")
                if r.random() < 0.35:
                    # escaped quotes inside, at the start and at the very end of the comment (the raw text, escapes
                    # included, is what the parser keeps)
                    comment = r.choice(['say \\"%s\\"' % nm, '\\"%s\\" quoted first' % nm, 'mid \\"q\\" dle %s' % nm, '\\"'])
                    self.tags.add("comment-with-escaped-quotes")
            decls.append({"name": nm, "dims": dims, "mods": mods, "value": value, "comment": comment})
            if comment and "\\" not in comment and len(comment) > 3 and r.random() < 0.25:
                # written as a concatenation of two string literals
                decls[-1]["comment_split"] = r.randint(1, len(comment) - 1)
                self.tags.add("comment-written-as-concatenation")
            if typ == "Real" and not dims and not (set(pf) & {"parameter", "constant"}):
                real_names.append(nm)
        if len(decls) >= 2:
            self.tags.add("multi-declarator-clause")
        return {"kind": "clause", "type": typ, "prefixes": pf, "clause_dims": clause_dims, "decls": decls}

    def eq(self, names):
        r = self.r
        if not names:
            return ("eq", num(1), num(1))
        lhs = var(r.choice(names))
        if r.random() < 0.25:
            lhs = ("der", lhs)
        return ("eq", lhs, self.expr(names, r.randint(0, 2)))

    def stmt(self, names):
        return ("assign", var(self.r.choice(names)), self.expr(names, self.r.randint(0, 2)))

    def cls(self, name, depth, known_classes):
        r = self.r
        c = {"name": name, "kind": r.choice(["model", "model", "class", "block"]), "comment": None, "first": [],
             "parts": [], "nested": []}
        if r.random() < 0.3:
            c["comment"] = "class %s comment" % name
            self.tags.add("class-comment")
            if r.random() < 0.3:
                c["comment"] = 'class %s is \\"special\\"' % name
                self.tags.add("comment-with-escaped-quotes")
        reals = []
        sections = [("first", None)]
        nsec = r.randint(0, 3)
        for _ in range(nsec):
            sections.append(("vis", r.choice(["public", "protected"])))
        if nsec >= 2:
            self.tags.add("interleaved-visibility-sections")
        for kind, label in sections:
            elems = []
            for _ in range(r.randint(0 if kind == "vis" else 1, 3)):
                k = r.random()
                if k < 0.7:
                    elems.append(self.clause(reals))
                elif k < 0.8 and known_classes:
                    base = r.choice(known_classes)
                    mods = []
                    elems.append({"kind": "extends", "name": base["name"],
                                  "mods": [(m, num(r.randint(1, 9))) for m in base["params"][:r.randint(0, 2)]]})
                    if r.random() < 0.3:
                        if base["params"] and r.random() < 0.7:
                            elems[-1]["nested"] = (base["params"][-1], r.randint(1, 9))
                            elems[-1]["mods"] = [x for x in elems[-1]["mods"] if x[0] != base["params"][-1]]
                        elems[-1]["redeclare"] = self.fresh("rz")
                        self.tags.add("extends-with-component-redeclaration")
                    self.tags.add("extends-in-%s-section" % (label or "default"))
                elif k < 0.88:
                    form = r.choice(["qualified", "renaming", "unqualified", "list", "list"])
                    elems.append({"kind": "import", "form": form, "pkg": "Lib%d" % r.randint(1, 3), "cls": self.fresh("I"),
                                  "nlist": r.randint(2, 4)})
                    self.tags.add("import:" + form)
                elif depth < 2:
                    inner = self.cls(self.fresh("N"), depth + 1, known_classes)
                    elems.append({"kind": "class", "cls": inner})
                    self.tags.add("nested-class-depth-%d" % (depth + 1))
            if kind == "first":
                c["first"] = elems
            else:
                c["parts"].append(("vis", label, elems))
        # equation / algorithm sections, interleaved with the visibility sections
        for _ in range(r.randint(0, 4)):
            kind = r.choice(["equation", "equation", "initial equation", "algorithm", "initial algorithm"])
            if not reals:
                break
            items = [self.eq(reals) if "equation" in kind else self.stmt(reals) for _ in range(r.randint(1, 3))]
            pos = r.randint(0, len(c["parts"]))
            c["parts"].insert(pos, ("sec", kind, items))
            self.tags.add("section:" + kind)
        c["params"] = [d["name"] for e in c["first"] if e["kind"] == "clause" and "parameter" in e["prefixes"] and e["type"] == "Real"
                       for d in e["decls"] if not d["dims"]]
        return c


def P(e):
    return mexpr.to_text(e)


def print_elem(e, ind):
    if e["kind"] == "clause":
        s = ind + "".join(p + " " for p in e["prefixes"]) + e["type"]
        if e["clause_dims"]:
            s += "[" + ", ".join(P(d) for d in e["clause_dims"]) + "]"
        parts = []
        for d in e["decls"]:
            t = d["name"]
            if d["dims"]:
                t += "[" + ", ".join(P(x) for x in d["dims"]) + "]"
            if d["mods"]:
                t += "(" + ", ".join("%s = %s" % (a, P(x)) for a, x in d["mods"]) + ")"
            if d["value"] is not None:
                t += " = " + P(d["value"])
            if d["comment"]:
                if d.get("comment_split"):
                    k_ = d["comment_split"]
                    t += ' "%s" + "%s"' % (d["comment"][:k_], d["comment"][k_:])
                else:
                    t += ' "%s"' % d["comment"]
            parts.append(t)
        return s + " " + ", ".join(parts) + ";\n"
    if e["kind"] == "extends":
        items = ["%s = %s" % (a, P(x)) for a, x in e["mods"]]
        if e.get("nested"):
            items.insert(0, "%s(start = %s)" % e["nested"])
        if e.get("redeclare"):
            # a component redeclaration inside the extends modification: it modifies the base class, it does not
            # declare a component of the extending class
            items.append("redeclare Real %s" % e["redeclare"])
        m = "(" + ", ".join(items) + ")" if items else ""
        return "%sextends %s%s;\n" % (ind, e["name"], m)
    if e["kind"] == "import":
        if e["form"] == "qualified":
            return "%simport %s.%s;\n" % (ind, e["pkg"], e["cls"])
        if e["form"] == "renaming":
            return "%simport %s = %s.%s;\n" % (ind, e["cls"], e["pkg"], e["cls"] + "Long")
        if e["form"] == "unqualified":
            return "%simport %s.Sub%s.*;\n" % (ind, e["pkg"], e["cls"])
        return "%simport %s.{%s};\n" % (ind, e["pkg"], ", ".join(list_names(e)))
    return print_cls(e["cls"], ind)


def list_names(e):
    """names of an import list  import P.{a, ab, ac, ad}"""
    return [e["cls"]] + [e["cls"] + ch for ch in "bcd"[:e.get("nlist", 2) - 1]]


def print_cls(c, ind=""):
    s = "%s%s %s%s\n" % (ind, c["kind"], c["name"], ' "%s"' % c["comment"] if c["comment"] else "")
    i2 = ind + "  "
    for e in c["first"]:
        s += print_elem(e, i2)
    for part in c["parts"]:
        if part[0] == "vis":
            s += ind + part[1] + "\n" + "".join(print_elem(e, i2) for e in part[2])
        else:
            s += ind + part[1] + "\n"
            for it in part[2]:
                if it[0] == "eq":
                    s += "%s%s = %s;\n" % (i2, mexpr.Printer().p_(it[1], 1), P(it[2]))
                else:
                    s += "%s%s := %s;\n" % (i2, P(it[1]), P(it[2]))
    return s + "%send %s;\n" % (ind, c["name"])


def same_expr(a, b, seed=0):
    """expressions equal by value at 3 points (shape differences such as (-7)*x vs -(7*x) are C03's business)."""
    import random
    if a == b:
        return True
    names = sorted(mexpr.vars_in(a) | mexpr.vars_in(b))
    rr = random.Random(len(names) * 7919 + seed)
    for _ in range(3):
        env = {n: round(rr.uniform(0.5, 5), 3) for n in names}
        try:
            va, vb = mexpr.evaluate(a, env), mexpr.evaluate(b, env)
        except (mexpr.Undefined, KeyError, TypeError):
            return False
        if not mexpr.close(va, vb):
            return False
    return True


def same_items(g, e):
    return len(g) == len(e) and all(x[0] == y[0] and all(same_expr(p, q) for p, q in zip(x[1:], y[1:])) for x, y in zip(g, e))


def dims_of(sym):
    out = []
    for dl in sym.dimensions:
        for d in dl:
            if d is None:
                continue
            m = adapters.to_mexpr(d) if not (hasattr(d, "value") and d.value is None and type(d).__name__ == "Primary") else None
            if m is not None:
                out.append(m)
    return out


def compare_class(ctx, c, pc, path, probe_symbols):
    """c: description, pc: parsed ast.Class.  -> (key, message) or None"""
    from pymoca import ast as past
    ctx.monitor("classes_compared")
    if pc.type != c["kind"]:
        return ("class-kind", "%s: kind %r, declared %s" % (path, pc.type, c["kind"]))
    if (pc.comment or "") != (c["comment"] or ""):
        return ("class-comment", "%s: comment %r, declared %r" % (path, pc.comment, c["comment"]))
    exp_syms, exp_ext, exp_imp, exp_nested = [], [], [], []
    default_vis = set()

    def take(elems, vis):
        for e in elems:
            if e["kind"] == "clause":
                for d in e["decls"]:
                    exp_syms.append((d, e, vis))
            elif e["kind"] == "extends":
                exp_ext.append((e, vis))
            elif e["kind"] == "import":
                exp_imp.append(e)
            else:
                exp_nested.append(e["cls"])
    take(c["first"], None)
    for part in c["parts"]:
        if part[0] == "vis":
            take(part[2], part[1])
    names = [d["name"] for d, _, _ in exp_syms]
    if list(pc.symbols.keys()) != names:
        return ("component-set-or-order", "%s: symbols %s, declared %s" % (path, list(pc.symbols.keys()), names))
    orders = [pc.symbols[n].order for n in names]
    if orders != sorted(orders) or len(set(orders)) != len(orders):
        return ("declaration-order-rank", "%s: Symbol.order %s is not strictly increasing in declaration order" % (path, orders))
    for d, e, vis in exp_syms:
        sym = pc.symbols[d["name"]]
        probe_symbols.append(sym)
        ctx.monitor("symbols_compared")
        w = path + "." + d["name"]
        if sym.name != d["name"]:
            return ("symbol-name", "%s: name %r" % (w, sym.name))
        tname = ".".join(sym.type.to_tuple()) if hasattr(sym.type, "to_tuple") else str(sym.type)
        if tname != e["type"]:
            return ("symbol-type", "%s: type %r, declared %s" % (w, tname, e["type"]))
        if list(sym.prefixes) != list(e["prefixes"]):
            feat = "prefix-pair" if len(e["prefixes"]) > 1 else "prefix"
            return ("symbol-prefixes:" + feat, "%s: prefixes %r, declared %r" % (w, sym.prefixes, e["prefixes"]))
        exp_dims = list(d["dims"] or []) + list(e["clause_dims"] or [])
        try:
            got_dims = dims_of(sym)
        except adapters.Unknown as u:
            return ("symbol-dimensions-unreadable", "%s: %s" % (w, u))
        if got_dims != exp_dims:
            feat = "type-and-declarator-dims" if (d["dims"] and e["clause_dims"]) else ("type-dims" if e["clause_dims"] else "declarator-dims")
            return ("symbol-dimensions:" + feat, "%s: dimensions %s, declared %s" % (w, got_dims, exp_dims))
        if vis == "public" and sym.visibility != past.Visibility.PUBLIC:
            return ("visibility:public-section", "%s: declared in a public section, visibility %s" % (w, sym.visibility))
        if vis == "protected" and sym.visibility != past.Visibility.PROTECTED:
            return ("visibility:protected-section", "%s: declared in a protected section, visibility %s" % (w, sym.visibility))
        if vis is None:
            default_vis.add(sym.visibility)
            if sym.visibility == past.Visibility.PROTECTED:
                return ("visibility:default-section-protected", "%s: default section but PROTECTED" % w)
        if (sym.comment or "") != (d["comment"] or ""):
            return ("symbol-comment", "%s: comment %r, declared %r" % (w, sym.comment, d["comment"]))
        exp_mods = [(a, x) for a, x in d["mods"]] + ([("value", d["value"])] if d["value"] is not None else [])
        got_mods = []
        if sym.class_modification is not None:
            for arg in sym.class_modification.arguments:
                em = arg.value
                try:
                    got_mods.append((".".join(em.component.to_tuple()), adapters.to_mexpr(em.modifications[0]) if len(em.modifications) == 1 else "multi"))
                except (adapters.Unknown, AttributeError, IndexError) as u:
                    return ("symbol-modification-unreadable", "%s: %r" % (w, u))
        if not same_items(got_mods, exp_mods):
            return ("symbol-modifications", "%s: modifications %s, declared %s" % (w, got_mods, exp_mods))
    if len(default_vis) > 1:
        return ("visibility:default-section-inconsistent", "%s: default-section symbols have visibilities %s" % (path, default_vis))
    # extends
    if len(pc.extends) != len(exp_ext):
        return ("extends-count", "%s: %d extends clauses, declared %d" % (path, len(pc.extends), len(exp_ext)))
    for (e, vis), pe in zip(exp_ext, pc.extends):
        if ".".join(pe.component.to_tuple()) != e["name"]:
            return ("extends-name", "%s: extends %s, declared %s" % (path, pe.component, e["name"]))
        if vis == "public" and pe.visibility != past.Visibility.PUBLIC or vis == "protected" and pe.visibility != past.Visibility.PROTECTED:
            return ("visibility:extends-%s-section" % vis, "%s: extends %s in a %s section has visibility %s" % (path, e["name"], vis, pe.visibility))
        got = []
        n_redeclared = 0
        for a in pe.class_modification.arguments:
            if getattr(a, "redeclare", False) or not hasattr(a.value, "modifications"):
                n_redeclared += 1
                continue
            if a.value.modifications and type(a.value.modifications[0]).__name__ == "ClassModification":
                continue        # nested modification p(start = 1): only its presence is generated, not compared
            got.append((".".join(a.value.component.to_tuple()), adapters.to_mexpr(a.value.modifications[0])))
        if n_redeclared != (1 if e.get("redeclare") else 0):
            return ("extends-redeclarations", "%s: extends %s has %d redeclaration arguments, declared %d" % (
                path, e["name"], n_redeclared, 1 if e.get("redeclare") else 0))
        if not same_items(got, e["mods"]):
            return ("extends-modifications", "%s: extends %s modifications %s, declared %s" % (path, e["name"], got, e["mods"]))
    # imports
    imps = pc.imports
    for e in exp_imp:
        if e["form"] == "qualified":
            v = imps.get(e["cls"])
            ok = v is not None and hasattr(v, "to_tuple") and v.to_tuple() == (e["pkg"], e["cls"])
        elif e["form"] == "renaming":
            v = imps.get(e["cls"])
            ok = v is not None and getattr(v, "short_name", None) == e["cls"] and v.components[0].to_tuple() == (e["pkg"], e["cls"] + "Long")
        elif e["form"] == "unqualified":
            v = imps.get("*")
            ok = v is not None and any(cmp.to_tuple() == (e["pkg"], "Sub" + e["cls"]) for cmp in v.components)
        else:
            ok = all(n in imps and hasattr(imps[n], "to_tuple") and imps[n].to_tuple() == (e["pkg"], n) for n in list_names(e))
        if not ok:
            return ("import:" + e["form"], "%s: import %s not attached as declared (imports: %s)" % (path, e, list(imps.keys())))
    # sections
    exp = {"equation": [], "initial equation": [], "algorithm": [], "initial algorithm": []}
    for part in c["parts"]:
        if part[0] == "sec":
            exp[part[1]] += part[2]
    for kind, got in (("equation", pc.equations), ("initial equation", pc.initial_equations)):
        try:
            g = [("eq", adapters.to_mexpr(q.left), adapters.to_mexpr(q.right)) for q in got]
        except adapters.Unknown as u:
            return ("equation-unreadable", "%s: %s" % (path, u))
        if not same_items(g, exp[kind]):
            return ("section:%s" % kind.replace(" ", "-"), "%s: %s section content/order %s, declared %s" % (
                path, kind, [P(x[1]) + "=" + P(x[2]) for x in g], [P(x[1]) + "=" + P(x[2]) for x in exp[kind]]))
    for kind, got in (("algorithm", pc.statements), ("initial algorithm", pc.initial_statements)):
        try:
            g = [("assign", adapters.to_mexpr(q.left[0]), adapters.to_mexpr(q.right)) for q in got]
        except (adapters.Unknown, AttributeError, IndexError) as u:
            return ("statement-unreadable", "%s: %r" % (path, u))
        if not same_items(g, exp[kind]):
            return ("section:%s" % kind.replace(" ", "-"), "%s: %s section content/order differs" % (path, kind))
    # nested classes
    if list(pc.classes.keys()) != [n["name"] for n in exp_nested]:
        return ("nested-classes", "%s: nested classes %s, declared %s" % (path, list(pc.classes.keys()), [n["name"] for n in exp_nested]))
    for n in exp_nested:
        bad = compare_class(ctx, n, pc.classes[n["name"]], path + "." + n["name"], probe_symbols)
        if bad:
            return bad
        if pc.classes[n["name"]].parent is not pc:
            return ("nested-class-parent", "%s.%s: parent link does not point to the declaring class" % (path, n["name"]))
    return None


def aliasing_probe(ctx, tree, cname):
    """mutate one symbol of a pickle clone; no other symbol may change."""
    from pymoca import ast as past
    clone = pickle.loads(pickle.dumps(tree))
    syms = []

    def collect(c):
        syms.extend(c.symbols.values())
        for n in c.classes.values():
            collect(n)
    collect(clone.classes[cname])
    if len(syms) < 2:
        return None
    for victim_i, victim in enumerate(syms[:6]):
        before = [canon.digest(s, follow_parent=False) for s in syms]
        victim.prefixes.append("__probe__")
        if victim.dimensions is not None:
            victim.dimensions.append([past.Primary(value=77)])
        victim.type.child.append(past.ComponentRef(name="__probe__"))
        if victim.class_modification is not None:
            victim.class_modification.arguments.append(past.ClassModificationArgument())
        after = [canon.digest(s, follow_parent=False) for s in syms]
        ctx.monitor("aliasing_probes")
        changed = [syms[i].name for i in range(len(syms)) if i != victim_i and before[i] != after[i]]
        if changed:
            return ("aliasing:objects-shared-between-declarators", "mutating symbol %s also changed %s" % (victim.name, changed))
    return None


def one(ctx, builds, rng, k):
    ext = None
    g = Gen(rng, ext)
    base = {"name": "Base1", "params": ["bp1", "bp2"]}
    base_text = "model Base1\n  parameter Real bp1 = 1, bp2 = 2;\n  Real bx;\nend Base1;\n\n"
    c = g.cls("M", 0, [base])
    dup = rng.random() < 0.05
    text = base_text + print_cls(c)
    if dup:
        # declare an existing component a second time, in one of several shapes
        clauses = [e for e in c["first"] if e["kind"] == "clause"]
        first = next((d for e in clauses for d in e["decls"]), None)
        if first is None:
            dup = False
        else:
            shape = rng.choice(["new-section", "same-clause", "same-clause-last", "next-clause", "other-type", "nth-declarator"])
            ctx.cover("duplicate-shape:" + shape)
            body = print_cls(c)
            nm = first["name"]
            if shape == "new-section":
                text = base_text + body.rsplit("end M;", 1)[0] + "public\n  Real %s;\nend M;\n" % nm
            elif shape in ("same-clause", "same-clause-last", "next-clause", "other-type", "nth-declarator"):
                head = "%s %s" % (body.split("\n", 1)[0], "")
                extra = {"same-clause": "  Real dq1, dq1;\n", "same-clause-last": "  Real dq1, dq2[2], dq1 = 3;\n",
                         "next-clause": "  Real dq1;\n  Real dq1;\n", "other-type": "  Real dq1;\n  Integer dq1;\n",
                         "nth-declarator": "  Real dq1;\n  parameter Real dq2 = 1, dq3 = 2, dq1 = 3;\n"}[shape]
                lines = body.split("\n")
                text = base_text + "\n".join([lines[0], extra.rstrip("\n")] + lines[1:])
    nclauses = sum(1 for e in c["first"] if e["kind"] == "clause") + sum(1 for p in c["parts"] if p[0] == "vis" for e in p[2] if e["kind"] == "clause")
    nt = (nclauses >= 2 and "multi-declarator-clause" in g.tags) or len(c["parts"]) >= 2
    ctx.case(text, nt, {"text": text} if k < 1 else None)
    for t in g.tags:
        ctx.cover(t)
    exts = sorted(t for t in g.tags if t.startswith("ext:"))
    feat = exts[0] if exts else "core"
    for label, parse in builds:
        case = {"text": text, "desc": c, "dup": dup, "build": label, "feat": feat}
        try:
            tree = parse(text, bypass_cache=True)
            err = None
        except Exception as e:
            tree, err = None, e
        if dup:
            ctx.monitor("duplicate_cases")
            if err is None and tree is not None:
                ctx.violation("C04:duplicate-declaration-accepted", "a component declared twice was accepted\n%s" % text, case)
            continue
        if err is not None:
            ctx.violation("C04:%s:parse-raises:%s" % (feat, exc_sig(err)), "parse raised %r\n%s" % (err, text), case)
            continue
        if tree is None:
            ctx.violation("C04:%s:rejected" % feat, "valid class text rejected as syntax error\n%s" % text, case)
            continue
        probe = []
        try:
            bad = compare_class(ctx, c, tree.classes["M"], "M", probe)
        except adapters.Unknown as u:
            ctx.inconclusive("adapter: %s" % u)
            continue
        if bad is None:
            bad = aliasing_probe(ctx, tree, "M")
        if bad:
            ctx.violation("C04:%s:%s" % (feat, bad[0]), "%s\n%s" % (bad[1], text), case)


def prepare(prepdir, tier):
    g4.parser_builds(prepdir)


def run_shard(ctx):
    logging.disable(logging.CRITICAL)
    builds, info = g4.parser_builds(ctx.prep)
    ctx.extra.update({"parser_builds": [b[0] for b in builds], **info})
    for k in range(ctx.n(6000, 100000)):
        if ctx.out_of_time():
            break
        ctx.guarded(one, ctx, builds, ctx.rng, k, timeout=60)


def replay(ctx, case):
    logging.disable(logging.CRITICAL)
    from checks.c03_expr_precedence import _retree
    builds, info = g4.parser_builds(ctx.prep)
    text = case["text"]
    for label, parse in builds:
        try:
            tree = parse(text, bypass_cache=True)
        except Exception as e:
            ctx.violation("C04:replay:parse-raises:%s" % exc_sig(e), repr(e), case)
            continue
        if case.get("dup"):
            if tree is not None:
                ctx.violation("C04:duplicate-declaration-accepted", "duplicate accepted", case)
            continue
        c = _redesc(case["desc"])
        bad = compare_class(ctx, c, tree.classes["M"], "M", []) or aliasing_probe(ctx, tree, "M")
        if bad:
            ctx.violation("C04:%s:%s" % (case.get("feat", "core"), bad[0]), bad[1], case)


def _redesc(c):
    from checks.c03_expr_precedence import _retree

    def relem(e):
        e = dict(e)
        if e["kind"] == "clause":
            e["clause_dims"] = None if e["clause_dims"] is None else [_retree(d) for d in e["clause_dims"]]
            e["decls"] = [dict(d, dims=None if d["dims"] is None else [_retree(x) for x in d["dims"]],
                               mods=[(a, _retree(x)) for a, x in d["mods"]],
                               value=None if d["value"] is None else _retree(d["value"])) for d in e["decls"]]
        elif e["kind"] == "extends":
            e["mods"] = [(a, _retree(x)) for a, x in e["mods"]]
        elif e["kind"] == "class":
            e["cls"] = _redesc(e["cls"])
        return e
    c = dict(c)
    c["first"] = [relem(e) for e in c["first"]]
    parts = []
    for p in c["parts"]:
        if p[0] == "vis":
            parts.append(("vis", p[1], [relem(e) for e in p[2]]))
        else:
            parts.append(("sec", p[1], [tuple([it[0]] + [_retree(x) for x in it[1:]]) for it in p[2]]))
    c["parts"] = parts
    return c
