"""C01 - parse cache is transparent over any cache history.

History monitor at the parser.parse boundary: a generated history of cache operations (parse with
varying expiration/update flags, module reload = a new process's view, version change, clock advance on
a virtual clock, corruption of an entry / of the table layout / of the whole database file, file
deletion, poisoned rows that would make stale service visible) is executed against the real parse()
with a real sqlite database; after every parse the result is compared (canonical graph digest) with an
uncached parse of the same text in the same process, no exception may escape, and after every step an
offline checker reads the database and checks that no row belongs to a text that does not parse and
that no row holds None."""
import hashlib
import importlib
import logging
import os
import pickle
import shutil
import sqlite3
import sys
import time

from vf import canon, mlib
from vf.worker import exc_sig, safe_garbage

LEVEL = "fault_enumeration"
RULE = ("histories of length 3-12 (thorough: up to 40) over 4-6 texts (valid libraries/models and syntactically "
        "broken variants) of: parse(expiration in {0,1,30}, always_update_last_hit), reload, version change "
        "(A, B, A.dirty), clock advance (1 s, 2 d, 40 d), corrupt entry (empty/truncated/random/pickle of a missing "
        "class), break layout (drop/rename column, wrong type, no primary key, metadata table or keys missing), "
        "corrupt file (garbage/truncated/zero-length), delete file, poison rows; plus the systematic part: every "
        "ordered pair of fault kinds followed by hit and miss parses; distinct = digest of the operation history; "
        "non-trivial = history with >=1 fault or version/clock operation and >=2 parses of a text parsed before")
ASSUMPTIONS = ["only blobs that the harness has verified NOT to unpickle are injected as corrupt entries",
               "'structurally identical' = equality of the canonical graph of everything reachable (per-instance __deepcopy__ hooks excluded)",
               "core workload: a file- or layout-level fault is followed by a reload before the next parse (a new process); the "
               "extension workload (ext:fault-after-init) omits the reload",
               "a structurally valid file with an index page of another generation is only injected before a reload: between the "
               "per-process checks it is as undetectable as a blob that still unpickles to another tree"]
REQUIRED_MONITORS = ["parse_results_compared", "db_row_checks", "faults_injected", "cache_hits_observed"]
BUDGET = {"quick": 60, "thorough": 900}

VERS = ["1.0.vfA", "1.0.vfB", "1.0.vfA.dirty"]


class Clock:
    def __init__(self):
        self.ns = 1_700_000_000 * 10 ** 9

    def time_ns(self):
        self.ns += 1000          # strictly increasing
        return self.ns

    def time(self):
        return self.time_ns() / 1e9


def make_texts(rng):
    """-> list of (text, valid?)"""
    out = []
    for i in range(rng.randint(3, 4)):
        g = mlib.LibGen(rng, "flatten")
        lib = g.build()
        out.append((mlib.print_library(lib) + "\n// text %d %d\n" % (i, rng.randint(0, 10 ** 6)), True))
    # near-duplicates: valid texts that differ from another text of the history only in a detail a careless cache
    # key could ignore (blanks / line-break kind inside a string literal, letter case of an identifier, a digit)
    base = rng.choice([t for t, _ in out])
    k = base.find("model ")
    if k >= 0:
        e = base.find("\n", k)
        head, tail = base[:e], base[e:]
        kind = rng.choice(["string-trailing-blanks", "string-crlf", "identifier-case", "string-tab-vs-spaces"])
        if kind == "string-trailing-blanks":
            pair = (head + ' "first line\n second line"' + tail, head + ' "first line  \n second line"' + tail)
        elif kind == "string-crlf":
            pair = (head + ' "first line\n second line"' + tail, head + ' "first line\r\n second line"' + tail)
        elif kind == "string-tab-vs-spaces":
            pair = (head + ' "a\tb"' + tail, head + ' "a b"' + tail)
        else:
            pair = (base + "\nmodel CaseVariant Real qx; equation qx = 1; end CaseVariant;\n",
                    base + "\nmodel CaseVariant Real qX; equation qX = 1; end CaseVariant;\n")
        out += [(pair[0], True), (pair[1], True)]
    if rng.random() < 0.15:
        # a long chain of binary operators: a deep (left-leaning) expression tree
        n = rng.choice([150, 250, 300, 350])
        out.append(("model Deep%d\n  Real x;\nequation\n  x = %s;\nend Deep%d;\n" % (n, " + ".join(str(rng.randint(1, 9)) for _ in range(n)), n), True))
    if rng.random() < 0.1:
        # a description string with a lone surrogate: what reading a Latin-1 file with errors="surrogateescape" gives
        out.append(('model Esc%d "caf\udce9 %d"\n  Real x;\nequation\n  x = %d;\nend Esc%d;\n' % (len(out), rng.randint(0, 99), rng.randint(1, 9), len(out)), True))
    valid = [t for t, _ in out if not t.startswith(("model Deep", "model Esc"))]
    for i in range(rng.randint(1, 2)):
        t = rng.choice(valid)
        kind = rng.choice(["drop-semicolon", "unbalanced-end", "stray-character", "trailing-garbage"])
        if kind == "drop-semicolon":
            k = t.find(";")
            b = t[:k] + t[k + 1:]
        elif kind == "unbalanced-end":
            b = t.replace("end ", "edn ", 1)
        elif kind == "stray-character":
            k = t.find("model ")
            b = t[:k] + "$ " + t[k:]
        else:
            b = t + "\nthis is not modelica\n"
        out.append((b, False))
    return out


def deep_digest(tree):
    """canonical digest; the harness's own walk over a deep expression tree gets a recursion limit of its own (the
    calls into pymoca run under the interpreter's normal limit)."""
    try:
        return canon.digest(tree)
    except RecursionError:
        old = sys.getrecursionlimit()
        sys.setrecursionlimit(50000)
        try:
            return canon.digest(tree)
        finally:
            sys.setrecursionlimit(old)


def txt_hash(t):
    return hashlib.sha256(t.encode("utf-8", "surrogatepass")).hexdigest()


class World:
    def __init__(self, ctx, rng, folder, ext):
        import pymoca
        import pymoca.parser
        self.ctx, self.r, self.folder, self.ext = ctx, rng, folder, ext
        self.pymoca = pymoca
        self.db = os.path.join(folder, "model_txt_cache.db")
        self.texts = make_texts(rng)
        self.ref = {}
        # validity is decided by the uncached parser itself, not by how the text was produced
        usable = []
        for t, _ in self.texts:
            try:
                usable.append((t, self.reference_of(t) is not None))
            except RecursionError:
                # too deep for the uncached parser itself: outside the comparison
                ctx.discard("text-too-deep-for-the-uncached-parser")
        self.texts = usable
        if any(t.startswith("model Deep") for t, _ in usable):
            ctx.cover("text:deep-expression-chain")
        if any(t.startswith("model Esc") for t, _ in usable):
            ctx.cover("text:lone-surrogate-in-a-string")
        for t, ok in self.texts:
            ctx.cover("text:valid" if ok else "text:syntax-error")
        self.clock = Clock()
        self.version = VERS[0]
        self.ops = []
        self.need_reload = False
        self.parsed_before = set()
        self.reparse_count = 0
        self.fault_count = 0
        self.bad_blobs = set()
        self.file_corrupt = False
        self.remove_events = 0

    def parser(self):
        return sys.modules["pymoca.parser"]

    def reference_of(self, text):
        if text not in self.ref:
            t = self.parser().parse(text, bypass_cache=True)
            self.ref[text] = None if t is None else deep_digest(t)
        return self.ref[text]

    def reference(self, i):
        return self.reference_of(self.texts[i][0])

    # -- operations ------------------------------------------------------------------------------
    def op_parse(self, i=None):
        r = self.r
        if i is None:
            i = r.randrange(len(self.texts))
        exp = r.choice([30, 30, 1, 0])
        upd = r.random() < 0.3
        text, valid = self.texts[i]
        self.ops.append(["parse", i, exp, upd])
        self.pymoca.__version__ = self.version
        from pathlib import Path
        before_rows = self.count_rows()
        try:
            got = self.parser().parse(text, model_cache_folder=Path(self.folder), cache_expiration_days=exp, always_update_last_hit=upd)
        except Exception as e:
            return ("parse-raises:%s" % exc_sig(e), "parse(text %d) raised %r" % (i, e))
        self.ctx.monitor("parse_results_compared")
        want = self.reference(i)
        gd = None if got is None else deep_digest(got)
        if (gd is None) != (want is None):
            return ("returns-%s-for-%s-text" % ("none" if gd is None else "tree", "valid" if valid else "broken"),
                    "parse(text %d) returned %s, an uncached parse returns %s" % (i, "None" if gd is None else "a tree", "None" if want is None else "a tree"))
        if gd != want:
            return ("stale-or-foreign-tree-served", "parse(text %d) returned a tree that differs from an uncached parse of the same text" % i)
        if got is not None and self.r.random() < 0.3:
            # the result belongs to the caller, who may change it (Tree.extend is the usual multi-file idiom):
            # a later parse of the same text must not see that
            try:
                extra = self.parser().parse("model CallerAdded%d Real q; end CallerAdded%d;" % (len(self.ops), len(self.ops)), bypass_cache=True)
                got.extend(extra)
                for c in list(got.classes.values())[:1]:
                    c.symbols.clear()
                self.ctx.cover("caller-mutates-returned-tree")
            except Exception:
                pass
        if i in self.parsed_before:
            self.reparse_count += 1
            if before_rows is not None and before_rows == self.count_rows() and valid and not self.version.endswith(".dirty"):
                self.ctx.monitor("cache_hits_observed")
        self.parsed_before.add(i)
        return None

    def op_reload(self):
        self.ops.append(["reload"])
        importlib.reload(sys.modules["pymoca.parser"])
        self.need_reload = False
        self.ctx.cover("op:reload")

    def op_version(self):
        self.version = self.r.choice(VERS)
        self.ops.append(["set-version", self.version])
        self.ctx.cover("op:version:" + ("dirty" if self.version.endswith(".dirty") else "clean"))

    def op_clock(self):
        d = self.r.choice([1, 2 * 86400, 40 * 86400])
        self.clock.ns += d * 10 ** 9
        self.ops.append(["advance-clock", d])
        self.ctx.cover("op:clock:%s" % {1: "1s", 2 * 86400: "2d", 40 * 86400: "40d"}[d])

    def count_rows(self):
        if self.file_corrupt or not os.path.exists(self.db):
            return None
        try:
            c = sqlite3.connect("file:%s?mode=ro" % self.db, uri=True)
            n = c.execute("SELECT count(*) FROM models").fetchone()[0]
            c.close()
            return n
        except sqlite3.Error:
            return None

    def raw(self):
        return sqlite3.connect(self.db, isolation_level=None)

    def op_corrupt_entry(self):
        if not os.path.exists(self.db) or self.file_corrupt:
            return
        kind = self.r.choice(["empty", "truncated", "random", "missing-class", "null", "text", "frame-length-overflow",
                              "opcode-on-wrong-object", "bad-int-literal", "unknown-extension-code"])
        try:
            c = self.raw()
            rows = c.execute("SELECT txt_hash, pymoca_version, data FROM models").fetchall()
            if not rows:
                c.close()
                return
            h, v, data = self.r.choice(rows)
            if kind == "empty":
                blob = b""
            elif kind == "truncated":
                # (a row damaged before may hold NULL or TEXT)
                blob = bytes(data[: max(1, len(data) // 2)]) if isinstance(data, (bytes, memoryview)) else b""
            elif kind == "random":
                blob = safe_garbage(self.r, 64)
            elif kind == "null":
                blob = None
            elif kind == "text":
                blob = "not a blob"
            elif kind == "frame-length-overflow":
                blob = b"\x80\x04\x95" + b"\xff" * 8 + b"N."
            elif kind == "opcode-on-wrong-object":
                blob = self.r.choice([b"\x80\x04NNNs.", b"\x80\x04NNR."])
            elif kind == "bad-int-literal":
                blob = b"I12x\n."
            elif kind == "unknown-extension-code":
                blob = b"\x82\x07."
            else:
                blob = missing_class_pickle()
            try:
                pickle.loads(blob)
                c.close()
                return                      # would unpickle: not a corrupt entry, do not inject
            except Exception:
                pass
            c.execute("UPDATE models SET data=? WHERE txt_hash=? AND pymoca_version=?", (blob, h, v))
            c.close()
        except sqlite3.Error:
            return
        self.bad_blobs.add(blob)
        self.ops.append(["corrupt-entry", kind])
        self.fault("corrupt-entry:" + kind, file_level=False)

    def op_poison(self):
        """a row for text T under another version (or a deleted class of rows) holding the tree of T'."""
        if not os.path.exists(self.db) or self.file_corrupt:
            return
        valid = [i for i, (t, ok) in enumerate(self.texts) if ok and not t.startswith("model Deep")]
        if len(valid) < 2:
            return
        i, j = self.r.sample(valid, 2)
        # versions that never become the current one: a row under a version that is later made current would
        # be a legitimate hit on an inconsistent row made by the harness, not stale service
        tree_j = self.parser().parse(self.texts[j][0], bypass_cache=True)
        try:
            c = self.raw()
            c.execute("INSERT OR REPLACE INTO models (txt_hash, pymoca_version, data, last_hit) VALUES (?,?,?,?)",
                      (txt_hash(self.texts[i][0]), self.r.choice(["0.0.ancient", "9.9.other", VERS[0] + "x"]), pickle.dumps(tree_j), self.clock.time_ns() // 1000))
            c.close()
        except sqlite3.Error:
            return
        self.ops.append(["poison-other-version-row", i, j])
        self.poisoned = True
        self.fault("poison:row-of-another-version-with-foreign-tree", file_level=False)

    def op_break_layout(self):
        if not os.path.exists(self.db) or self.file_corrupt:
            return
        kind = self.r.choice(["drop-column", "rename-column", "wrong-type", "no-primary-key", "drop-metadata-table",
                              "delete-metadata-keys", "drop-models-table"])
        try:
            c = self.raw()
            if kind == "drop-column":
                c.execute("ALTER TABLE models DROP COLUMN last_hit")
            elif kind == "rename-column":
                c.execute("ALTER TABLE models RENAME COLUMN data TO blob")
            elif kind in ("wrong-type", "no-primary-key"):
                c.execute("DROP TABLE IF EXISTS models")
                if kind == "wrong-type":
                    c.execute("CREATE TABLE models (txt_hash TEXT, pymoca_version TEXT, data TEXT, last_hit INTEGER, PRIMARY KEY (txt_hash, pymoca_version))")
                else:
                    c.execute("CREATE TABLE models (txt_hash TEXT, pymoca_version TEXT, data BLOB, last_hit TIMESTAMP INTEGER)")
            elif kind == "drop-metadata-table":
                c.execute("DROP TABLE IF EXISTS metadata")
            elif kind == "delete-metadata-keys":
                c.execute("DELETE FROM metadata")
            else:
                c.execute("DROP TABLE IF EXISTS models")
            c.close()
        except sqlite3.Error:
            return
        self.ops.append(["break-layout", kind])
        self.fault("break-layout:" + kind, file_level=True)

    def op_corrupt_file(self):
        kind = self.r.choice(["garbage", "truncated", "zero-length", "delete", "directory", "index-of-another-generation",
                              "index-of-another-generation"])
        if not os.path.exists(self.db):
            return
        if kind == "index-of-another-generation":
            return self.op_swap_index()
        if kind == "directory" and os.path.isdir(self.db):
            return
        if os.path.isdir(self.db):
            shutil.rmtree(self.db)
            open(self.db, "wb").close()
        if kind == "directory":
            # the database cannot even be opened (sqlite3.OperationalError: unable to open database file)
            os.remove(self.db)
            os.mkdir(self.db)
            self.file_corrupt = True
        elif kind == "delete":
            os.remove(self.db)
            for ext_ in ("-journal", "-wal", "-shm"):
                if os.path.exists(self.db + ext_):
                    os.remove(self.db + ext_)
            self.file_corrupt = False
        if kind not in ("directory", "delete"):
            size = os.path.getsize(self.db)
            with open(self.db, "r+b") as f:
                if kind == "garbage":
                    f.seek(0)
                    f.write(bytes(self.r.randrange(256) for _ in range(min(size, 4096))))
                    self.file_corrupt = True
                elif kind == "truncated":
                    f.truncate(max(10, size // 3))
                    self.file_corrupt = True
                else:
                    f.truncate(0)
                    self.file_corrupt = False      # an empty file is a valid, empty sqlite database
        self.ops.append(["corrupt-file", kind])
        self.fault("corrupt-file:" + kind, file_level=True)

    def op_swap_index(self):
        """a structurally valid file whose index page comes from another generation of the same database (as a lost
        or torn page write leaves it): the primary-key index then points text A at the row of text B.  Only
        PRAGMA integrity_check notices; a lookup through the index would serve B's tree for A."""
        if self.file_corrupt or os.path.isdir(self.db) or self.ext == "ext:fault-after-init":
            # without a new process nothing short of an integrity check on every call could notice this damage
            return
        sib = self.db + ".sibling"
        try:
            c = self.raw()
            rows = c.execute("SELECT txt_hash, pymoca_version, data, last_hit FROM models ORDER BY rowid").fetchall()
            schema = [r_[0] for r_ in c.execute("SELECT sql FROM sqlite_master WHERE sql IS NOT NULL ORDER BY rowid")]
            meta = c.execute("SELECT key, value FROM metadata").fetchall()
            ps = c.execute("PRAGMA page_size").fetchone()[0]
            root = c.execute("SELECT rootpage FROM sqlite_master WHERE type='index' AND tbl_name='models'").fetchone()
            c.close()
            if len(rows) < 2 or root is None or any(not isinstance(r_[2], bytes) for r_ in rows):
                return
            if os.path.exists(sib):
                os.remove(sib)
            s2 = sqlite3.connect(sib, isolation_level=None)
            for q in schema:
                s2.execute(q)
            s2.executemany("INSERT INTO metadata (key, value) VALUES (?, ?)", meta)
            s2.executemany("INSERT INTO models (txt_hash, pymoca_version, data, last_hit) VALUES (?,?,?,?)", list(reversed(rows)))
            root2 = s2.execute("SELECT rootpage FROM sqlite_master WHERE type='index' AND tbl_name='models'").fetchone()
            ps2 = s2.execute("PRAGMA page_size").fetchone()[0]
            s2.close()
            if root2 != root or ps2 != ps:
                return
            with open(sib, "rb") as f:
                f.seek((root[0] - 1) * ps)
                page = f.read(ps)
            with open(self.db, "r+b") as f:
                f.seek((root[0] - 1) * ps)
                f.write(page)
        except sqlite3.Error:
            return
        finally:
            if os.path.exists(sib):
                os.remove(sib)
        self.ops.append(["corrupt-file", "index-of-another-generation"])
        self.fault("corrupt-file:index-of-another-generation", file_level=True)

    def fault(self, tag, file_level):
        self.fault_count += 1
        self.ctx.monitor("faults_injected")
        self.ctx.cover("fault:" + tag)
        if file_level:
            self.need_reload = True

    def check_rows(self):
        """offline checker: no row for a text that does not parse, no row holding None."""
        if not os.path.exists(self.db):
            return None
        try:
            c = sqlite3.connect("file:%s?mode=ro" % self.db, uri=True)
            try:
                rows = c.execute("SELECT txt_hash, data FROM models").fetchall()
            finally:
                c.close()
        except sqlite3.Error:
            return None         # deliberately damaged at the moment
        self.file_corrupt = False if rows is not None else self.file_corrupt
        broken = {txt_hash(t) for t, ok in self.texts if not ok}
        for h, data in rows:
            self.ctx.monitor("db_row_checks")
            if h in broken:
                return ("failed-parse-stored", "the database holds a row for a text that has a syntax error")
            if data is None or isinstance(data, str) or bytes(data) in self.bad_blobs:
                continue
            try:
                obj = pickle.loads(data)
            except Exception:
                continue
            if obj is None:
                return ("none-stored", "the database holds a row whose blob unpickles to None")
        return None


def missing_class_pickle():
    """pickle of an instance whose class cannot be found when unpickling."""
    import types
    m = types.ModuleType("vf_gone_module")

    class Gone:
        pass
    Gone.__module__ = "vf_gone_module"
    Gone.__qualname__ = "Gone"
    m.Gone = Gone
    sys.modules["vf_gone_module"] = m
    try:
        return pickle.dumps(Gone())
    finally:
        del sys.modules["vf_gone_module"]


def run_history(ctx, rng, k, ext, script=None):
    import pymoca
    import pymoca.parser
    folder = os.path.join(ctx.work, "c01_%d" % k)
    shutil.rmtree(folder, ignore_errors=True)
    os.makedirs(folder)
    saved_version = pymoca.__version__
    saved_time = (time.time_ns, time.time)
    w = World(ctx, rng, folder, ext)
    time.time_ns, time.time = w.clock.time_ns, w.clock.time
    removed = []
    bad = None
    try:
        importlib.reload(sys.modules["pymoca.parser"])
        n = rng.randint(3, 12) if ctx.quick() else rng.randint(3, 40)
        steps = script if script is not None else [None] * n
        for st in steps:
            if st is None:
                x = rng.random()
                if x < 0.45 or len(w.ops) == 0:
                    st = "parse"
                elif x < 0.55:
                    st = "reload"
                elif x < 0.63:
                    st = "version"
                elif x < 0.72:
                    st = "clock"
                elif x < 0.80:
                    st = "corrupt-entry"
                elif x < 0.86:
                    st = "poison"
                elif x < 0.93:
                    st = "break-layout"
                else:
                    st = "corrupt-file"
            if st == "parse":
                if w.need_reload and ext != "ext:fault-after-init":
                    w.op_reload()
                # prefer a text seen before so that hits, not only misses, are exercised
                i = None
                if w.parsed_before and rng.random() < 0.6:
                    i = rng.choice(sorted(w.parsed_before))
                bad = w.op_parse(i)
            elif st == "reload":
                w.op_reload()
            elif st == "version":
                w.op_version()
            elif st == "clock":
                w.op_clock()
            elif st == "corrupt-entry":
                w.op_corrupt_entry()
            elif st == "poison":
                w.op_poison()
            elif st == "break-layout":
                w.op_break_layout()
            elif st == "corrupt-file":
                w.op_corrupt_file()
            if bad is None:
                rb = w.check_rows()
                if rb:
                    bad = rb
            if bad:
                break
        if bad is None:
            # close every history with a parse of each text (after a reload in the core workload)
            if w.need_reload and ext != "ext:fault-after-init":
                w.op_reload()
            for i in range(len(w.texts)):
                bad = w.op_parse(i) or w.check_rows()
                if bad:
                    break
    finally:
        time.time_ns, time.time = saved_time
        pymoca.__version__ = saved_version
        shutil.rmtree(folder, ignore_errors=True)
    nt = w.fault_count + sum(1 for o in w.ops if o[0] in ("set-version", "advance-clock")) >= 1 and w.reparse_count >= 2
    ctx.case({"ops": w.ops, "texts": [hashlib.sha256(t.encode("utf-8", "surrogatepass")).hexdigest()[:8] for t, _ in w.texts]}, nt,
             {"history": w.ops, "n_texts": len(w.texts)} if k < 2 else None)
    if bad:
        feat = ext or "core"
        last_fault = next((o[0] + ":" + str(o[1]) for o in reversed(w.ops) if o[0] in ("corrupt-entry", "break-layout", "corrupt-file", "poison-other-version-row")), "no-fault")
        ctx.violation("C01:%s:%s" % (feat, bad[0]), "%s (last fault: %s)\nhistory: %s" % (bad[1], last_fault, w.ops),
                      {"ops": w.ops, "ext": ext, "texts": [t for t, _ in w.texts]})


SYSTEMATIC_FAULTS = ["corrupt-entry", "poison", "break-layout", "corrupt-file", "version", "clock", "reload"]


def run_shard(ctx):
    logging.disable(logging.CRITICAL)
    rng = ctx.rng
    # systematic part: every ordered pair of fault kinds, each followed by hit and miss parses
    pairs = [(a, b) for a in SYSTEMATIC_FAULTS for b in SYSTEMATIC_FAULTS]
    for pi, (a, b) in enumerate(pairs):
        if pi % ctx.nshards != ctx.shard or ctx.out_of_time():
            continue
        script = ["parse", "parse", "parse", a, "parse", b, "parse", "parse"]
        ctx.cover("systematic-pair")
        ctx.guarded(run_history, ctx, rng, 10000 + pi, None, script, timeout=300)
    n = ctx.n(400, 20000)
    for k in range(n):
        if ctx.out_of_time():
            break
        ext = "ext:fault-after-init" if rng.random() < 0.12 else None
        ctx.guarded(run_history, ctx, rng, k, ext, timeout=300)


def replay(ctx, case):
    logging.disable(logging.CRITICAL)
    ctx.inconclusive("C01 replay: re-run the check with the recorded seed; the replay file holds the operation history and the texts")
