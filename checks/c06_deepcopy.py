"""C06 - deep copies of a tree are independent of the original.

History monitor over tree handles {original, copies, copies of copies}: deepcopy, add/remove
class/symbol/equation through the AST API on any handle, flatten of any class of any handle.  The
harness keeps the library *description* of every handle and applies each edit to it in parallel;
the expected flatten result is flatten(parse(print(description))).  After every deepcopy a
structural invariant is checked on the real objects (parent chains end at the copy's root; no node
object shared with the source)."""
import copy
import logging
import pickle

from vf import adapters, canon, mlib
from vf.mlib import num, var
from vf.worker import exc_sig
from checks import c07_hier_flatten as c07

LEVEL = "exploration"
RULE = ("random histories (quick: length 4-10, thorough: up to 16) of deepcopy / add_symbol / remove_symbol / "
        "add_equation / remove_equation / add_class / remove_class / flatten over handles up to copy depth 3 of "
        "generated libraries; edits aim at classes that the flattened class reaches through a component type or an "
        "extends clause; distinct = digest of (library text, operation history); non-trivial = history contains a "
        "deepcopy, an edit and a later flatten")
ASSUMPTIONS = ["added symbols/equations/classes are obtained by parsing snippets, so they are indistinguishable from parsed content",
               "flatten runs on a pickle clone of the handle, which preserves whatever objects the handle really points to",
               "flat results are compared semantically (names, types, prefixes, attribute and equation expression trees), not by Symbol.order"]
REQUIRED_MONITORS = ["flatten_comparisons", "generate_comparisons", "deepcopy_invariant_checks", "edits_applied"]
# the structural invariant is a diagnostic (reported in the evidence); flatten outcomes decide
BUDGET = {"quick": 45, "thorough": 700}


def get_class(tree, full):
    c = tree
    for p in full.split("."):
        c = c.classes[p]
    return c


def desc_class(lib, full):
    cs = lib["classes"]
    c = None
    for p in full.split("."):
        c = next(x for x in cs if x["name"] == p)
        cs = c.get("classes", [])
    return c


def all_classes(lib, prefix=""):
    out = []
    for c in lib["classes"] if "classes" in lib and prefix == "" else []:
        pass
    def walk(cs, pre):
        for c in cs:
            if c.get("alias"):
                continue
            out.append(pre + c["name"])
            walk(c.get("classes", []), pre + c["name"] + ".")
    walk(lib["classes"], "")
    return out


def flat_summary(fc):
    """semantic projection of a pymoca flat class."""
    syms = {}
    for n, s in fc.symbols.items():
        attrs = {}
        for a in ("value", "start", "min", "max", "nominal", "fixed"):
            node = getattr(s, a)
            attrs[a] = None if (hasattr(node, "value") and node.value is None) else repr(adapters.to_mexpr(node))
        syms[n] = (getattr(s.type, "name", str(s.type)), tuple(sorted(p for p in s.prefixes)), attrs["value"], attrs["start"],
                   attrs["min"], attrs["max"], attrs["nominal"], attrs["fixed"])
    eqs = sorted(repr((adapters.to_mexpr(e.left), adapters.to_mexpr(e.right))) for e in fc.equations)
    ieqs = sorted(repr((adapters.to_mexpr(e.left), adapters.to_mexpr(e.right))) for e in fc.initial_equations)
    funcs = {}
    for fname, f in getattr(fc, "functions", {}).items():
        funcs[fname] = (sorted(f.symbols.keys()), len(f.statements))
    return {"symbols": syms, "equations": eqs, "initial_equations": ieqs, "functions": funcs}


def flatten_handle(tree, cname, direct=False):
    """direct: flatten the handle's own tree (flatten leaves its argument's content alone - property C05 - but
    anything it remembers inside that tree then lives on in the handle and in its later copies); otherwise a
    throw-away clone is flattened."""
    from pymoca import ast as past, tree as ptree
    clone = tree if direct else pickle.loads(pickle.dumps(tree))
    try:
        flat = ptree.flatten(clone, past.ComponentRef.from_string(cname))
        summ = flat_summary(flat.classes[cname])
        # the functions the model calls come back as further classes of the flat tree
        for oname, oc in flat.classes.items():
            if oname != cname:
                summ["functions"][oname] = (sorted(oc.symbols.keys()), len(oc.statements))
        return ("ok", summ)
    except RecursionError:
        return ("exc", "RecursionError")
    except Exception as e:
        return ("exc", type(e).__name__)


def fn_text(fn):
    """a user function and a model that calls it (the reference flattener of mlib has no functions: the oracle is the
    fresh parse of this text)."""
    if not fn:
        return ""
    extra = "".join("  Real %s;\n" % n for n in fn["extra_syms"])
    redecl = ""
    if fn.get("redecl"):
        # a class redeclaration whose replacing class (Heater) holds a class-typed component (Element e)
        eextra = "".join("  Real %s;\n" % n for n in fn["elem_extra"])
        redecl = ("\nmodel Element\n  parameter Real gain = 1;\n  Real u;\n  Real y;\n%sequation\n  y = gain * u;\nend Element;\n"
                  "model Idle\n  Real out;\nequation\n  out = 0;\nend Idle;\n"
                  "model Heater\n  Real out;\n  Element e(gain = %d);\nequation\n  e.u = 1;\n  out = e.y;\nend Heater;\n"
                  "model Loop\n  replaceable model Source = Idle;\n  Source s;\nend Loop;\n"
                  "model System\n  Loop l(redeclare model Source = Heater);\nend System;\nmodel Lab\n  Heater h;\nend Lab;\n" % (eextra, fn["k"]))
    return (redecl + "\nfunction fq\n  input Real u;\n  output Real y;\nprotected\n  Real t;\n%salgorithm\n  t := %d * u;\n  y := t + 1;\nend fq;\n"
            "\nmodel UsesFq\n  Real a;\n  Real b;\nequation\n  a = time;\n  b = fq(a);\nend UsesFq;\n" % (extra, fn["k"]))


def pq_text(pq):
    """a package with constants that a model in it refers to by their dotted names (flattening pulls such constants
    into the flat model under the dotted name)."""
    if not pq:
        return ""
    return ("\npackage Pq\n  constant Real kq = %d;\n  constant Real kr = %d;\n  model Mq\n    Real x;\n    Real y;\n  equation\n"
            "    x = Pq.kq * time;\n    y = x + Pq.kr;\n  end Mq;\nend Pq;\n" % (pq["kq"], pq["kr"]))


def rq_record(rq):
    return "  record Rq\n    Real a;\n    Real b;\n%s  end Rq;\n" % "".join("    Integer %s;\n" % n for n in rq["fields"])


def rq_base(rq):
    return "  model Baseq\n    Real y0;\n%s  equation\n    y0 = %d;\n%s  end Baseq;\n" % (
        "".join("    Integer %s;\n" % n for n in rq["base_extra"]), rq["base_k"], "".join("    %s = 5;\n" % n for n in rq["base_extra"]))


def rq_text(rq):
    """a function with a record-typed formal (the record's package comes after the function's), and a model two
    packages deep that reaches its base class and a record through enclosing scopes."""
    if not rq:
        return ""
    return ("\npackage Pfq\n  function fr\n    input Libq.Rq r;\n    output Real y;\n  algorithm\n    y := r.a + r.b;\n  end fr;\n"
            "  model Mr\n    Libq.Rq q;\n    Real z;\n  equation\n    q.a = 1;\n    q.b = 2;\n    z = fr(q);\n  end Mr;\nend Pfq;\n"
            "package Appq\n" + rq_base(rq) +
            "  package Subq\n    model Mn\n      extends Baseq;\n      Libq.Rq p;\n      Real w;\n    equation\n      w = p.a + y0;\n    end Mn;\n  end Subq;\nend Appq;\n"
            "package Libq\n" + rq_record(rq) + "end Libq;\n")


def handle_text(h):
    return mlib.print_library(h["lib"]) + fn_text(h.get("fn")) + pq_text(h.get("pq")) + rq_text(h.get("rq"))


def flatten_desc(lib, cname, fn=None, pq=None, rq=None):
    from pymoca import parser
    text = mlib.print_library(lib) + fn_text(fn) + pq_text(pq) + rq_text(rq)
    t = parser.parse(text, bypass_cache=True)
    if t is None:
        return ("exc", "SyntaxError")
    return flatten_handle(t, cname)


def check_copy_invariant(src, cp):
    """-> None or (key, message)"""
    from pymoca import ast as past
    # parent chains
    stack = [(cp, cp)]
    seen = set()
    while stack:
        c, root = stack.pop()
        for sub in c.classes.values():
            if id(sub) in seen:
                continue
            seen.add(id(sub))
            p, hops = sub, 0
            while p.parent is not None and hops < 100:
                p, hops = p.parent, hops + 1
            if p is not cp:
                return ("parent-chain-leaves-the-copy", "class %s of the copy has a parent chain ending at %s" % (
                    sub.name, "the source tree" if p is src else "another tree"))
            if sub.parent is not c:
                return ("parent-is-not-the-containing-class", "class %s: parent is not the class that contains it" % sub.name)
            stack.append((sub, root))
    # sharing
    ids_src = set()

    def collect(o, acc, depth=0):
        if isinstance(o, past.Node):
            if id(o) in acc:
                return
            acc.add(id(o))
            for k, v in o.__dict__.items():
                if k in ("parent", "scope", "__deepcopy__"):
                    continue
                collect(v, acc, depth + 1)
        elif isinstance(o, (list, tuple)):
            if isinstance(o, list):
                acc.add(id(o))
            for x in o:
                collect(x, acc, depth + 1)
        elif isinstance(o, dict):
            acc.add(id(o))
            for x in o.values():
                collect(x, acc, depth + 1)
    collect(src, ids_src)
    ids_cp = set()
    collect(cp, ids_cp)
    shared = ids_src & ids_cp
    if shared:
        return ("node-shared-with-source", "%d node/list objects are shared between the copy and its source" % len(shared))
    return None


SNIPPET_COUNTER = [0]
EDIT_KINDS = ("add_record_field", "replace_record", "replace_base", "replace_constant", "add_symbol", "remove_symbol", "add_equation", "remove_equation", "add_class", "remove_class", "transplant_class", "edit_function")


def parse_snippet(text):
    from pymoca import parser
    t = parser.parse(text, bypass_cache=True)
    assert t is not None, text
    return t


class History:
    def __init__(self, ctx, rng, lib, tags):
        from pymoca import parser
        self.ctx, self.r = ctx, rng
        fn = {"k": rng.randint(2, 9), "extra_syms": [], "redecl": rng.random() < 0.5, "elem_extra": []} if rng.random() < 0.4 else None
        pq = {"kq": rng.randint(2, 9), "kr": rng.randint(2, 9)} if rng.random() < 0.35 else None
        rq = {"fields": [], "base_k": rng.randint(1, 9), "base_extra": []} if rng.random() < 0.35 else None
        self.text0 = mlib.print_library(lib) + fn_text(fn) + pq_text(pq) + rq_text(rq)
        t0 = parser.parse(self.text0, bypass_cache=True)
        self.handles = [{"tree": t0, "lib": copy.deepcopy(lib), "depth": 0, "label": "original", "src": None, "fn": fn, "pq": pq, "rq": rq}]
        if rq:
            tags.add("library-with-record-typed-formal-and-classes-reached-through-enclosing-scopes")
        if pq:
            tags.add("library-with-package-constants-referenced-by-dotted-name")
        if fn:
            tags.add("library-with-function-call")
        self.ops = []
        self.fresh = 0
        self.tags = tags
        self.has_copy = self.has_edit = False
        self.diag = None

    def pick_handle(self):
        return self.r.randrange(len(self.handles))

    def step(self):
        r = self.r
        k = r.random()
        if len(self.handles) == 1 and not self.ops:
            return self.op_copy(0)
        if k < 0.18 and len(self.handles) < 5:
            return self.op_copy(self.pick_handle())
        rqs = [i for i, h in enumerate(self.handles) if h.get("rq")]
        if rqs and r.random() < 0.12:
            # use (flatten on the handle's own tree), then copy or not, then replace a class the model reaches through
            # an enclosing scope / add a field to the record of the function's formal, then flatten everywhere
            hi = r.choice(rqs)
            for cname in r.sample(["Pfq.Mr", "Appq.Subq.Mn"], r.randint(1, 2)):
                bad = self.op_flatten(hi, cname, direct=True)
                if bad:
                    return bad
            target = hi
            if r.random() < 0.5 and len(self.handles) < 5 and self.handles[hi]["depth"] < 3:
                self.op_copy(hi)
                target = len(self.handles) - 1
            bad = self.op_edit(target, kind=r.choice(["add_record_field", "replace_record", "replace_base"]))
            if bad:
                return bad
            for h2 in {hi, target}:
                for cname in ("Pfq.Mr", "Appq.Subq.Mn"):
                    bad = self.op_flatten(h2, cname, direct=r.random() < 0.5)
                    if bad:
                        return bad
            return None
        if k < 0.52:
            return self.op_edit(self.pick_handle())
        if k < 0.60 and len(self.handles) >= 2:
            return self.op_transplant()
        if k < 0.68:
            return self.op_generate(self.pick_handle())
        if k < 0.76:
            # generate, edit the class just generated, generate again: the second request must see the edit
            hi = self.pick_handle()
            cands = mlib.flattenable_classes(self.handles[hi]["lib"])
            if cands:
                cname = r.choice(cands)
                kind = r.choice(["xml", "sympy"])
                bad = self.op_generate(hi, cname, kind)
                if bad:
                    return bad
                self.op_edit(hi, cname, r.choice(["add_symbol", "add_equation", "remove_equation"]))
                return self.op_generate(hi, cname, kind)
        return self.op_flatten(self.pick_handle())

    def op_transplant(self):
        """deep-copy ONE top-level class of one handle and add it to another handle that does not have a class of
        that name (a 'Kq' class added earlier, or a class the target lost through remove_class).  The source handle
        must be unaffected."""
        r = self.r
        pairs = []
        for si, sh in enumerate(self.handles):
            for ti, th in enumerate(self.handles):
                if si == ti:
                    continue
                have = {c["name"] for c in th["lib"]["classes"]}
                for c in sh["lib"]["classes"]:
                    if c["name"].startswith("Kq") and c["name"] not in have:
                        pairs.append((si, ti, c))
        if not pairs:
            return self.op_edit(self.pick_handle(), kind="add_class")
        si, ti, cdesc = r.choice(pairs)
        src, dst = self.handles[si], self.handles[ti]
        dst["tree"].add_class(copy.deepcopy(src["tree"].classes[cdesc["name"]]))
        dst["lib"]["classes"].append(copy.deepcopy(cdesc))
        self.ops.append(["transplant_class", ti, cdesc["name"], si])
        self.has_edit = True
        self.ctx.monitor("edits_applied")
        self.ctx.cover("op:transplant_class:from-%s-to-%s" % (src["label"], dst["label"]))
        # the class must still be there in the source
        return self.op_flatten(si, cdesc["name"])

    def op_copy(self, hi):
        h = self.handles[hi]
        if h["depth"] >= 3:
            return self.op_flatten(hi)
        new = copy.deepcopy(h["tree"])
        label = {0: "copy", 1: "copy-of-copy", 2: "copy-of-copy-of-copy"}[h["depth"]]
        self.handles.append({"tree": new, "lib": copy.deepcopy(h["lib"]), "depth": h["depth"] + 1, "label": label, "src": hi,
                             "fn": copy.deepcopy(h.get("fn")), "pq": copy.deepcopy(h.get("pq")), "rq": copy.deepcopy(h.get("rq"))})
        self.ops.append(["deepcopy", hi])
        self.has_copy = True
        self.ctx.cover("op:deepcopy:" + label)
        self.ctx.monitor("deepcopy_invariant_checks")
        bad = check_copy_invariant(h["tree"], new)
        if bad:
            # diagnostic: the property is decided by what flatten shows, below
            self.ctx.cover("diag:deepcopy-invariant-broken:" + bad[0])
            self.diag = bad
        return None

    def op_edit(self, hi, cname=None, kind=None):
        r = self.r
        h = self.handles[hi]
        lib, tree = h["lib"], h["tree"]
        classes = all_classes(lib)
        if not classes:
            return None
        kind = kind or r.choice(["add_symbol", "add_symbol", "add_equation", "add_equation", "remove_equation", "remove_symbol",
                                 "add_class", "remove_class"] + (["edit_function"] * 3 if h.get("fn") else []) + (
                                     ["replace_constant"] * 3 if h.get("pq") else []) + (
                                         ["add_record_field", "replace_record", "replace_base"] * 2 if h.get("rq") else []))
        if kind in ("add_record_field", "replace_record", "replace_base"):
            if not h.get("rq"):
                return None
            rq = h["rq"]
            self.fresh += 1
            self.ops.append([kind, hi, "Libq.Rq" if "record" in kind else "Appq.Baseq"])
            try:
                if kind == "add_record_field":
                    nm = "nq_%d" % self.fresh
                    snip = parse_snippet("record X\n  Integer %s;\nend X;\n" % nm)
                    tree.classes["Libq"].classes["Rq"].add_symbol(snip.classes["X"].symbols[nm])
                    rq["fields"].append(nm)
                elif kind == "replace_record":
                    # the class object is replaced by another one of the same name
                    rq["fields"] = ["kq_%d" % self.fresh]
                    snip = parse_snippet("package X\n" + rq_record(rq) + "end X;\n")
                    lib_ = tree.classes["Libq"]
                    lib_.remove_class(lib_.classes["Rq"])
                    lib_.add_class(snip.classes["X"].classes["Rq"])
                else:
                    rq["base_k"] = r.randint(10, 99)
                    rq["base_extra"] = ["nb_%d" % self.fresh]
                    snip = parse_snippet("package X\n" + rq_base(rq) + "end X;\n")
                    app = tree.classes["Appq"]
                    app.remove_class(app.classes["Baseq"])
                    app.add_class(snip.classes["X"].classes["Baseq"])
            except Exception as e:
                return ("C06:edit:%s:raises:%s" % (kind, type(e).__name__), "%s on handle %d (%s) raised %r" % (kind, hi, h["label"], e))
            self.has_edit = True
            self.ctx.monitor("edits_applied")
            self.ctx.cover("op:%s:on-%s" % (kind, h["label"]))
            return None
        if kind == "replace_constant":
            if not h.get("pq"):
                return None
            # a package constant gets another value: the symbol is removed and one of the same name is added
            which = r.choice(["kq", "kr"])
            val = r.randint(10, 99)
            snip = parse_snippet("package X\n  constant Real %s = %d;\nend X;\n" % (which, val))
            pkg = tree.classes["Pq"]
            self.ops.append(["replace_constant", hi, "Pq." + which])
            try:
                pkg.remove_symbol(pkg.symbols[which])
                pkg.add_symbol(snip.classes["X"].symbols[which])
            except Exception as e:
                flattened_before = any(o[0] == "flatten" and o[1] == hi and o[2] == "Pq.Mq" and o[3] == "direct" for o in self.ops)
                return ("C06:edit:replace_constant:raises:%s%s" % (type(e).__name__, ":after-flatten-on-this-tree" if flattened_before else ""),
                        "remove_symbol/add_symbol of constant Pq.%s on handle %d (%s) raised %r" % (which, hi, h["label"], e))
            h["pq"][which] = val
            self.has_edit = True
            self.ctx.monitor("edits_applied")
            self.ctx.cover("op:replace_constant:on-%s" % h["label"])
            return None
        if kind == "edit_function":
            if not h.get("fn"):
                return None
            self.fresh += 1
            nm = "tq%d" % self.fresh
            snip = parse_snippet("model X\n  Real %s;\nend X;\n" % nm)
            if h["fn"].get("redecl") and r.random() < 0.5:
                # edit the class of the component inside the replacing class of the redeclaration
                tree.classes["Element"].add_symbol(snip.classes["X"].symbols[nm])
                h["fn"]["elem_extra"].append(nm)
                self.ops.append(["edit_function", hi, "Element"])
                self.has_edit = True
                self.ctx.monitor("edits_applied")
                self.ctx.cover("op:edit_class_of_redeclared_component:on-%s" % h["label"])
                return None
            tree.classes["fq"].add_symbol(snip.classes["X"].symbols[nm])
            h["fn"]["extra_syms"].append(nm)
            self.ops.append(["edit_function", hi, "fq"])
            self.has_edit = True
            self.ctx.monitor("edits_applied")
            self.ctx.cover("op:edit_function:on-%s" % h["label"])
            return None
        if cname is None and kind == "add_equation" and r.random() < 0.5:
            # boundary size 0: the first equation of a class that has none
            empty = [x for x in classes if not desc_class(lib, x)["eqs"] and not desc_class(lib, x).get("alias")
                     and any(y["type"] == "Real" and not y["dims"] and not (set(y["prefixes"]) & {"parameter", "constant"}) for y in desc_class(lib, x)["comps"])]
            if empty:
                cname = r.choice(empty)
                self.ctx.cover("op:add_equation:first-equation-of-the-class")
        cname = cname or r.choice(classes)
        d = desc_class(lib, cname)
        c = get_class(tree, cname)
        self.fresh += 1
        if kind == "add_symbol":
            nm = "zq%d" % self.fresh
            val = r.randint(1, 99)
            snip = parse_snippet("model X\n  Real %s(start = %d);\nend X;\n" % (nm, val))
            c.add_symbol(snip.classes["X"].symbols[nm])
            d["comps"].append({"name": nm, "type": "Real", "prefixes": [], "dims": [],
                               "mods": [{"path": [], "attr": "start", "expr": num(val), "spelling": "mixed"}], "value": None})
        elif kind == "remove_symbol":
            cands = [x for x in d["comps"] if x["name"].startswith("zq")]
            if not cands:
                return None
            x = r.choice(cands)
            # only symbols that no equation of the class mentions
            used = repr(d.get("eqs")) + repr(d.get("ieqs"))
            if "'%s'" % x["name"] in used:
                return None
            c.remove_symbol(c.symbols[x["name"]])
            d["comps"].remove(x)
        elif kind == "add_equation":
            reals = [x["name"] for x in d["comps"] if x["type"] == "Real" and not x["dims"] and not (set(x["prefixes"]) & {"parameter", "constant"})]
            if not reals:
                return None
            a, b = r.choice(reals), r.choice(reals)
            k1, k2 = r.randint(2, 9), r.randint(1, 99)
            snip = parse_snippet("model X\n  Real %s;\n%sequation\n  %s = %d * %s + %d;\nend X;\n" % (
                a, "" if a == b else "  Real %s;\n" % b, a, k1, b, k2))
            c.add_equation(snip.classes["X"].equations[0])
            d["eqs"].append(("eq", var(a), ("bin", "+", ("bin", "*", num(k1), var(b)), num(k2))))
        elif kind == "remove_equation":
            if not d["eqs"]:
                return None
            i = r.randrange(len(d["eqs"]))
            if len(c.equations) != len(d["eqs"]):
                return ("C06:edit:equation-count-drifted", "class %s of handle %d has %d equations, its description %d" % (
                    cname, hi, len(c.equations), len(d["eqs"])))
            c.remove_equation(c.equations[i])
            del d["eqs"][i]
        elif kind == "add_class":
            nm = "Kq%d" % self.fresh
            val = r.randint(1, 99)
            snip = parse_snippet("model %s\n  Real q;\nequation\n  q = %d;\nend %s;\n" % (nm, val, nm))
            tree.add_class(snip.classes[nm])
            lib["classes"].append({"name": nm, "kind": "model", "alias": None, "extends": [], "comps": [
                {"name": "q", "type": "Real", "prefixes": [], "dims": [], "mods": [], "value": None}], "classes": [],
                "eqs": [("eq", var("q"), num(val))], "ieqs": [], "connects": []})
            cname = nm
        elif kind == "remove_class":
            tops = [x for x in lib["classes"] if x["name"].startswith("Kq")]
            if not tops:
                return None
            x = r.choice(tops)
            tree.remove_class(tree.classes[x["name"]])
            lib["classes"].remove(x)
            cname = x["name"]
        self.ops.append([kind, hi, cname])
        self.has_edit = True
        self.ctx.monitor("edits_applied")
        self.ctx.cover("op:%s:on-%s" % (kind, h["label"]))
        return None

    def op_generate(self, hi, cname=None, kind=None):
        """sympy / xml generate directly on the handle (these backends work on a private deep copy
        of the caller's tree); compared with generate on a fresh parse of the handle's description."""
        import re
        from pymoca import parser
        r = self.r
        h = self.handles[hi]
        cands = mlib.flattenable_classes(h["lib"])
        if not cands:
            return None
        cname = cname or r.choice(cands)
        kind = kind or r.choice(["xml", "sympy"])
        self.ops.append(["generate-" + kind, hi, cname])

        def run(tree):
            try:
                if kind == "xml":
                    from pymoca.backends.xml import generator as xg
                    return ("ok", xg.generate(tree, cname))
                from pymoca.backends.sympy import generator as sg
                # symbol lists are ordered by Symbol.order, which differs between an edited tree and a
                # fresh parse of the same content: compare the token multiset
                return ("ok", sorted(re.findall(r"[A-Za-z_0-9.]+", sg.generate(tree, cname))))
            except RecursionError:
                return ("exc", "RecursionError")
            except Exception as e:
                return ("exc", type(e).__name__)
        got = run(h["tree"])
        fresh = parser.parse(handle_text(h), bypass_cache=True)
        exp = run(fresh)
        self.ctx.monitor("generate_comparisons")
        self.ctx.cover("op:generate-%s:on-%s" % (kind, h["label"]))
        if got != exp:
            edits_here = [o[0] for o in self.ops if o[0] in EDIT_KINDS and o[1] == hi]
            return ("C06:generate-%s:%s:%s" % (kind, h["label"], "own-edit-invisible" if edits_here else "differs-from-fresh-parse"),
                    "%s generate(%s) on handle %d (%s) differs from a fresh parse of the handle's content (outcome %s vs %s)" % (
                        kind, cname, hi, h["label"], got[0] if got[0] == "ok" else got[1], exp[0] if exp[0] == "ok" else exp[1]))
        return None

    def op_flatten(self, hi, cname=None, direct=None):
        r = self.r
        h = self.handles[hi]
        cands = [cname] if cname else mlib.flattenable_classes(h["lib"]) + (["UsesFq"] * 3 if h.get("fn") else []) + (["Pq.Mq"] * 3 if h.get("pq") else []) + (["Pfq.Mr", "Appq.Subq.Mn"] * 3 if h.get("rq") else []) + (
            ["System", "System", "Lab", "Heater"] if (h.get("fn") or {}).get("redecl") else [])
        # sometimes ask for a class that only exists in another handle
        others = [c for o in self.handles for c in mlib.flattenable_classes(o["lib"]) if c.startswith("Kq")]
        if others and not cname and r.random() < 0.25:
            cands = others
        if not cands:
            return None
        cname = r.choice(cands)
        self.ops.append(["flatten", hi, cname])
        direct = r.random() < 0.6 if direct is None else direct
        self.ops[-1].append("direct" if direct else "on-clone")
        got = flatten_handle(h["tree"], cname, direct)
        exp = flatten_desc(h["lib"], cname, h.get("fn"), h.get("pq"), h.get("rq"))
        self.ctx.monitor("flatten_comparisons")
        self.ctx.cover("op:flatten:on-" + h["label"])
        if got != exp:
            detail = "outcome %s vs expected %s" % (got[0] if got[0] == "ok" else got[1], exp[0] if exp[0] == "ok" else exp[1])
            if got[0] == "ok" and exp[0] == "ok":
                for part in ("symbols", "equations", "initial_equations", "functions"):
                    if got[1][part] != exp[1][part]:
                        detail = "%s differ: %s" % (part, canon.first_difference(canon.canon(got[1][part]), canon.canon(exp[1][part])))
                        break
            edits_here = [o[0] for o in self.ops if o[0] not in ("deepcopy", "flatten") and o[1] == hi]
            edits_elsewhere = [o[0] for o in self.ops if o[0] not in ("deepcopy", "flatten") and o[1] != hi]
            sym = ("own-edit-invisible" if edits_here and not edits_elsewhere else
                   "foreign-edit-visible" if edits_elsewhere and not edits_here else "edits-mixed-up")
            return ("C06:flatten:%s:%s" % (h["label"], sym),
                    "flatten(%s) on handle %d (%s): %s" % (cname, hi, h["label"], detail))
        return None


def one_history(ctx, rng, k):
    ext = None
    g = mlib.LibGen(rng, "flatten", ext)
    lib = g.build()
    H = History(ctx, rng, lib, g.tags)
    length = rng.randint(4, 10) if ctx.quick() else rng.randint(4, 16)
    bad = None
    saw_flatten_after = False
    for _ in range(length):
        bad = H.step()
        if bad:
            break
    if bad is None:
        # always finish by flattening one class per handle
        for hi in range(len(H.handles)):
            bad = H.op_flatten(hi)
            if bad:
                break
    nt = H.has_copy and H.has_edit
    ctx.case({"t": H.text0, "ops": H.ops}, nt, {"library": H.text0[:1200], "history": H.ops} if k < 1 else None)
    if bad:
        ctx.violation(bad[0], "%s%s\nhistory: %s\n%s" % (bad[1], " [structural diagnostic: %s]" % (H.diag[1],) if H.diag else "", H.ops, H.text0),
                      {"lib": lib, "ops": H.ops, "seed_note": "replay re-executes the recorded operations"})


def run_shard(ctx):
    logging.disable(logging.CRITICAL)
    for k in range(ctx.n(1000, 20000)):
        if ctx.out_of_time():
            break
        ctx.guarded(one_history, ctx, ctx.rng, k, timeout=120)


def replay(ctx, case):
    """re-run a recorded history: edits are regenerated by the same random stream, so replay
    re-executes by seed (the runner restores VERIF_SEED) - here we simply re-run random histories on
    the recorded library."""
    logging.disable(logging.CRITICAL)
    lib = c07.relib(case["lib"])
    for i in range(40):
        rng = ctx.subrng("replay", i)
        H = History(ctx, rng, lib, set())
        bad = None
        for _ in range(12):
            bad = H.step()
            if bad:
                break
        if bad:
            ctx.violation(bad[0], "%s\nhistory: %s" % (bad[1], H.ops), case)
            return
