"""C11 - DAE residual equals the Modelica meaning of the flat equations.

Reference-model monitor on casadi.generator.generate (+ Model.simplify with default options, as
transfer_model does): generated flat models are compiled by the real backend and the residual and
initial-residual functions are evaluated at typed random points and compared, equation block by
equation block, with the mflat reference residual."""
import logging

from vf import adapters, genflat, mexpr, mflat
from vf.worker import exc_sig

LEVEL = "exploration"
RULE = ("mflat models from the seed stream (2-8 equations drawn from scalar/boolean/if/for/array/function/"
        "initial templates; <=1 extension feature in ~12% of models); distinct = digest of the model text; "
        "non-trivial = >=2 equations and >=3 distinct operators/features; every model is evaluated at 5 "
        "typed random points (Booleans in {0,1})")
ASSUMPTIONS = ["mflat/mexpr evaluator is the Modelica meaning of the generated subset",
               "CasADi evaluates its own Function objects correctly",
               "points where the reference is ill-conditioned (near-zero divisors, relation ties, domain edges) are discarded"]
REQUIRED_MONITORS = ["dae_residual_points", "initial_residual_points"]
BUDGET = {"quick": 45, "thorough": 700}

EXTS = ["ext:ne", "ext:inverse-trig", "ext:array-literal-with-refs", "ext:stepped-range",
        "ext:der-of-parameter-expression", "ext:der-of-expression-with-time"]
CORE_OPS = ["+", "-", "*", "/", "^", "neg", "<", "<=", ">", ">=", "not", "and", "or", "if-expr",
            "min", "max", "abs", "sin", "cos", "exp", "log", "sqrt"]


def compile_model(text, name="M", options=None):
    from pymoca import parser
    from pymoca.backends.casadi import generator
    tree = parser.parse(text, bypass_cache=True)
    if tree is None:
        raise SyntaxError("generated text rejected by the parser")
    opts = dict(options or {})
    model = generator.generate(tree, name, opts)
    model.simplify(opts)
    return model


def check_model(ctx, m, tags, gen, rng, options=None, npoints=5):
    text = mflat.print_model(m)
    ext = sorted(t for t in tags if t.startswith("ext:"))
    feat = ext[0] if ext else "core"
    case = {"text": text, "model": m, "tags": sorted(tags), "options": options or {}}
    try:
        model = compile_model(text, m["name"], options)
        f_dae = model.dae_residual_function
        f_ini = model.initial_residual_function
    except Exception as e:
        ctx.violation("C11:%s:generate-raises:%s" % (feat, exc_sig(e)),
                      "generation raised %s: %s\n%s" % (type(e).__name__, str(e)[:200], text), case)
        return None
    ok_points = 0
    for k in range(3 * npoints):
        if ok_points >= npoints:
            break
        env = gen.point(rng)
        for initial in (False, True):
            if initial and not m["ieqs"]:
                continue
            try:
                blocks, scale = mflat.residual_blocks(m, env, initial, with_scale=True)
            except mexpr.Undefined as u:
                ctx.discard("point:" + str(u)[:30])
                continue
            except IndexError as ie:
                ctx.inconclusive("reference IndexError %s" % ie)
                return model
            try:
                got = adapters.residual(model, env, initial)
            except Exception as e:
                ctx.violation("C11:%s:evaluate-raises:%s" % (feat, type(e).__name__),
                              "residual evaluation raised %r\n%s" % (e, text), case)
                return model
            ctx.monitor("initial_residual_points" if initial else "dae_residual_points")
            bad = mflat.compare_blocks(blocks, got, scale=scale)
            if not initial:
                ok_points += 1
            if bad:
                ctx.violation("C11:%s:%s-mismatch" % (feat, "initial-residual" if initial else "residual"),
                              "%s at %s\n%s" % (bad, {k: (v if not hasattr(v, 'tolist') else v.tolist()) for k, v in env.items()}, text),
                              dict(case, env={k: (v if not hasattr(v, 'tolist') else v.tolist()) for k, v in env.items()}, initial=initial))
                return model
    if ok_points == 0:
        ctx.discard("case:no-comparable-point")
    return model


def one_case(ctx, rng, k):
    ext = rng.choice(EXTS) if rng.random() < 0.12 else None
    g = genflat.FlatGen(rng, ext)
    m = g.build()
    tags = g.tags
    text = mflat.print_model(m)
    nontrivial = len(m["eqs"]) >= 2 and len(tags) >= 3
    ctx.case(text, nontrivial, {"model": text, "tags": sorted(tags)} if k < 1 else None)
    for t in tags:
        ctx.cover(t)
    check_model(ctx, m, tags, g, rng)


def run_shard(ctx):
    logging.getLogger("pymoca").setLevel(logging.ERROR)
    rng = ctx.rng
    n = ctx.n(6000, 150000)
    for k in range(n):
        if ctx.out_of_time():
            break
        ctx.guarded(one_case, ctx, rng, k, timeout=60)


def replay(ctx, case):
    logging.getLogger("pymoca").setLevel(logging.ERROR)
    from checks.c03_expr_precedence import _retree
    m = _remodel(case["model"])
    g = genflat.FlatGen(ctx.rng)
    g.m = m
    check_model(ctx, m, set(case["tags"]), g, ctx.rng, case.get("options") or None, npoints=8)


def _remodel(m):
    from checks.c03_expr_precedence import _retree

    def req(e):
        k = e[0]
        if k == "eq":
            return ("eq", _retree(e[1]), _retree(e[2]))
        if k == "eqn":
            return ("eqn", [_retree(x) for x in e[1]], _retree(e[2]))
        if k == "if":
            return ("if", [(_retree(c), [req(b) for b in body]) for c, body in e[1]],
                    None if e[2] is None else [req(b) for b in e[2]])
        if k == "for":
            return ("for", e[1], _retree(e[2]), None if e[3] is None else _retree(e[3]), _retree(e[4]),
                    [req(b) for b in e[5]])
        raise ValueError(k)

    def rst(s):
        k = s[0]
        if k == "assign":
            return ("assign", _retree(s[1]), _retree(s[2]))
        if k == "ifs":
            return ("ifs", [(_retree(c), [rst(b) for b in body]) for c, body in s[1]],
                    None if s[2] is None else [rst(b) for b in s[2]])
        if k == "fors":
            return ("fors", s[1], _retree(s[2]), _retree(s[3]), [rst(b) for b in s[4]])
        raise ValueError(k)
    out = dict(m)
    out["eqs"] = [req(e) for e in m.get("eqs", [])]
    out["ieqs"] = [req(e) for e in m.get("ieqs", [])]
    out["vars"] = [dict(v, attrs={k: _retree(x) for k, x in (v.get("attrs") or {}).items()},
                        value=None if v.get("value") is None else _retree(v["value"])) for v in m["vars"]]
    out["funcs"] = [dict(f, inputs=[tuple(x) for x in f["inputs"]], outputs=[tuple(x) for x in f["outputs"]],
                         protected=[tuple(x) for x in f.get("protected", [])],
                         stmts=[rst(s) for s in f["stmts"]]) for f in m.get("funcs", [])]
    return out
