"""C27 - assembling a library from several files is order-independent.

Metamorphic monitor over permutations: a generated package library (package-level constants, nested
packages, models using and extending each other) is split into 2-4 files with `within` clauses, the
files are parsed and merged with Tree.extend in every permutation, and through the two real discovery
paths (the CasADi API's directory walk and tools.compiler.parse_all); every model must flatten to the
same result (or fail with the same exception type) in every order - and the same as the unsplit text."""
import itertools
import logging
import os
import shutil

from vf.worker import exc_sig
from checks import c06_deepcopy as c06

LEVEL = "exploration"
RULE = ("generated package libraries (1-2 top-level packages, nested packages, package constants referenced by "
        "qualified and enclosing-scope names, models with components of and extends from other library models) split "
        "into 2-4 files with within clauses (a package's own file vs files declaring classes within it); all "
        "permutations of the merge order (<=24), then four on-disk layouts (file-name orders, equal base names in "
        "sub-directories, sibling library_folders with a common name prefix); distinct = digest of the file set; non-trivial = at least one file "
        "declares a class within a package whose own definition (with constants) is in another file")
ASSUMPTIONS = ["flat results are compared through the semantic projection of checks/c06 (names, types, prefixes, "
               "attribute and equation expression trees)"]
REQUIRED_MONITORS = ["permutations_merged", "flatten_comparisons", "directory_walk_comparisons"]
BUDGET = {"quick": 45, "thorough": 700}


def gen_library(rng):
    """-> (files [(within or None, text)], unsplit text, model names, tags)"""
    tags = set()
    k = rng.randint(1, 9)
    g, h = round(rng.uniform(1, 9), 2), rng.randint(2, 9)
    P, Q = "P%d" % k, "Q%d" % k
    # members of P and P.Q as (name, text) so that they can be moved to their own files
    B = ("B", "model B\n  Real y;\n  parameter Real k = %s.g;\nequation\n  y = %s.g * 2 + h;\nend B;\n" % (P, P))
    Qconst = "  constant Real h = %d;\n" % h
    A = ("A", "model A\n  Real x;\n  %s.B b;\nequation\n  x = g + %s.h;\nend A;\n" % (Q, Q))
    D = ("D", "model D\n  extends A;\n  Real z;\nequation\n  z = 2 * x + g;\nend D;\n")
    extra = rng.random() < 0.5
    E = ("E", "model E\n  %s.B b1;\n  A a1;\nequation\n  b1.y = a1.x;\nend E;\n" % Q) if extra else None
    pmembers = [A, D] + ([E] if E else [])
    qmembers = [B]

    def pkg_text(name, consts, inline_members, nested_pkg_text=""):
        s = "package %s\n%s" % (name, consts)
        s += indent(nested_pkg_text)
        for _, t in inline_members:
            s += indent(t)
        return s + "end %s;\n" % name

    def indent(t):
        return "".join("  " + l + "\n" for l in t.splitlines()) if t else ""
    Pconst = "  constant Real g = %s;\n" % g
    unsplit = pkg_text(P, Pconst, pmembers, pkg_text(Q, Qconst, qmembers))
    # choose the split
    files = []
    q_separate = rng.random() < 0.6
    moved_p = [m for m in pmembers if rng.random() < 0.6]
    moved_q = [m for m in qmembers if rng.random() < 0.5]
    if not moved_p and not q_separate and not moved_q:
        moved_p = [pmembers[0]]
    kept_p = [m for m in pmembers if m not in moved_p]
    kept_q = [m for m in qmembers if m not in moved_q]
    qtext = pkg_text(Q, Qconst, kept_q)
    if q_separate:
        files.append(("within %s;\n" % P + qtext))
        files.append(pkg_text(P, Pconst, kept_p))
        tags.add("nested-package-in-own-file")
    else:
        files.append(pkg_text(P, Pconst, kept_p, qtext))
    member_files = []
    for _, t in moved_p:
        member_files.append(["within %s;\n" % P, t])
        tags.add("class-within-package-in-own-file")
    for _, t in moved_q:
        member_files.append(["within %s.%s;\n" % (P, Q), t])
        tags.add("class-within-nested-package-in-own-file")
    # at most 4 files in total: put classes with the same `within` into one file when needed
    while len(files) + len(member_files) > 4 or (len(member_files) > 1 and rng.random() < 0.2):
        merged = False
        for i in range(len(member_files)):
            for j in range(i + 1, len(member_files)):
                if member_files[i][0] == member_files[j][0]:
                    member_files[i][1] += "\n" + member_files[j][1]
                    del member_files[j]
                    merged = True
                    tags.add("several-classes-in-one-within-file")
                    break
            if merged:
                break
        if not merged:
            break
    files += [w + t for w, t in member_files]
    rng.shuffle(files)
    models = ["%s.A" % P, "%s.D" % P, "%s.%s.B" % (P, Q)] + (["%s.E" % P] if extra else [])
    return files, unsplit, models, tags


def merged_tree(texts):
    from pymoca import ast as past, parser
    tree = None
    for t in texts:
        sub = parser.parse(t, bypass_cache=True)
        if sub is None:
            raise SyntaxError("generated file rejected by the parser:\n" + t)
        if tree is None:
            tree = sub
        else:
            tree.extend(sub)
    return tree


def outcomes(tree, models):
    return {m: c06.flatten_handle(tree, m) for m in models}


def check(ctx, files, unsplit, models, tags, k):
    case = {"files": files, "unsplit": unsplit, "models": models, "tags": sorted(tags)}
    try:
        ref = outcomes(merged_tree([unsplit]), models)
    except Exception as e:
        ctx.inconclusive("unsplit library fails: %r" % (e,))
        return
    if any(v[0] != "ok" for v in ref.values()):
        ctx.inconclusive("unsplit library does not flatten: %s" % {m: v for m, v in ref.items() if v[0] != "ok"})
        return
    perms = list(itertools.permutations(range(len(files))))
    first_bad = None
    for perm in perms:
        ctx.monitor("permutations_merged")
        try:
            got = outcomes(merged_tree([files[i] for i in perm]), models)
        except Exception as e:
            ctx.violation("C27:merge-raises:%s" % exc_sig(e), "merging in order %s raised %r" % (perm, e), dict(case, perm=list(perm)))
            return
        for m in models:
            ctx.monitor("flatten_comparisons")
            if got[m] != ref[m]:
                own_first = order_kind(files, perm)
                what = "exception %s" % got[m][1] if got[m][0] != "ok" else "a different flat model"
                ctx.violation("C27:order-dependent:%s" % own_first,
                              "flatten(%s) after merging files in order %s gives %s; the unsplit library flattens fine\nfiles:\n%s" % (
                                  m, list(perm), what, "\n---\n".join(files[i] for i in perm)), dict(case, perm=list(perm)))
                return
    # real discovery paths: directory walk (casadi api) and tools.compiler.parse_all, two file-name layouts
    d = os.path.join(ctx.work, "c27_%d" % k)
    results = []
    for layout in range(2):
        shutil.rmtree(d, ignore_errors=True)
        os.makedirs(d)
        order = list(range(len(files)))
        if layout == 1:
            order.reverse()
        for pos, i in enumerate(order):
            with open(os.path.join(d, "f%d_%d.mo" % (pos, layout)), "w") as f:
                f.write(files[i])
        results.append(walk_outcomes(d, models))
        ctx.monitor("directory_walk_comparisons")
    # third layout: one sub-directory per file, all files with the same base name
    shutil.rmtree(d, ignore_errors=True)
    os.makedirs(d)
    for i, t in enumerate(files):
        os.makedirs(os.path.join(d, "part%d" % i))
        with open(os.path.join(d, "part%d" % i, "package.mo"), "w") as f:
            f.write(t)
    results.append(walk_outcomes(d, models))
    ctx.monitor("directory_walk_comparisons")
    ctx.cover("layout:same-base-name-in-several-directories")
    # fourth layout: the files spread over a model folder and library folders handed over with the library_folders
    # option, the folders being siblings whose names start alike (lib, lib_local, lib_local2, ...)
    if len(files) >= 2:
        shutil.rmtree(d, ignore_errors=True)
        os.makedirs(d)
        fnames = ["lib", "lib_local", "lib_local2", "lib2", "libx"]
        folders = []
        for i, t in enumerate(files):
            fd = os.path.join(d, fnames[min(i, len(fnames) - 1)] + ("" if i < len(fnames) else str(i)))
            os.makedirs(fd)
            folders.append(fd)
            # (every folder holds its file at the same relative path)
            with open(os.path.join(fd, "package.mo" if k % 2 else "f%d.mo" % i), "w") as f:
                f.write(t)
        results.append(walk_outcomes(folders[0], models, folders[1:]))
        ctx.monitor("directory_walk_comparisons")
        ctx.cover("layout:sibling-library-folders-with-a-common-name-prefix" + (":same-relative-file-path" if k % 2 else ""))
    shutil.rmtree(d, ignore_errors=True)
    for layout, res in enumerate(results):
        for key, val in res.items():
            if val != results[0][key] or (key[0] == "parse_all" and val != ("ok", ref[key[1]][1])):
                ctx.violation("C27:directory-walk:%s:depends-on-file-names" % key[0],
                              "%s of %s differs between file-name layouts / from the unsplit library: %s vs %s" % (
                                  key[0], key[1], _s(val), _s(results[0][key])), dict(case, layout=layout))
                return


def _s(v):
    return v[1] if v[0] != "ok" else "ok"


def order_kind(files, perm):
    """does a `within X` file precede the file that defines package X itself?"""
    pos = {i: p for p, i in enumerate(perm)}
    for i, t in enumerate(files):
        if t.startswith("within "):
            w = t.split(";")[0].split()[1]
            top = w.split(".")[0]
            last = w.split(".")[-1]
            for j, u in enumerate(files):
                if j != i and ("package %s\n" % last) in u and pos[i] < pos[j]:
                    return "within-file-before-package-definition"
    return "package-definition-first"


def walk_outcomes(folder, models, library_folders=()):
    from pathlib import Path
    out = {}
    # tools.compiler.parse_all
    try:
        import pymoca.ast as past
        import tools.compiler as comp
        lib = past.Tree(name="ModelicaTree")
        files, errs = comp.parse_all([Path(folder)] + [Path(p) for p in library_folders], lib)
        for m in models:
            out[("parse_all", m)] = c06.flatten_handle(lib, m)
    except Exception as e:
        for m in models:
            out[("parse_all", m)] = ("exc", type(e).__name__)
    # casadi api directory walk
    from pymoca.backends.casadi import api
    for m in models[:2]:
        try:
            model = api.transfer_model(folder, m, {"library_folders": list(library_folders)} if library_folders else {})
            sig = ([[v.symbol.name() for v in getattr(model, k)] for k in ("states", "alg_states", "parameters", "constants")],
                   sorted(str(e) for e in model.equations))
            out[("casadi_api", m)] = ("ok", repr(sig))
        except Exception as e:
            out[("casadi_api", m)] = ("exc", type(e).__name__)
    return out


def one(ctx, rng, k):
    files, unsplit, models, tags = gen_library(rng)
    nt = any(t in tags for t in ("class-within-package-in-own-file", "nested-package-in-own-file"))
    ctx.case({"f": sorted(files)}, nt, {"files": files, "models": models} if k < 1 else None)
    for t in tags:
        ctx.cover(t)
    ctx.cover("files:%d" % len(files))
    check(ctx, files, unsplit, models, tags, k)


def run_shard(ctx):
    logging.disable(logging.CRITICAL)
    for k in range(ctx.n(600, 10000)):
        if ctx.out_of_time():
            break
        ctx.guarded(one, ctx, ctx.rng, k, timeout=120)


def replay(ctx, case):
    logging.disable(logging.CRITICAL)
    check(ctx, case["files"], case["unsplit"], case["models"], set(case["tags"]), 0)
