"""C26 - compiler CLI exit status counts exactly the errors.

Monitor on tools.compiler.main, one subprocess per invocation (it configures logging and may call
sys.exit): the outcome (returned count / SystemExit code / escaping exception) is compared with the
count the generated scenario implies.  Scenarios are stage-pure (usage errors only, parse errors
only, model failures only, argparse errors, success); stage-mixed invocations are only used for the
'same outcome alone or together' comparison."""
import json
import logging
import os
import shutil
import subprocess
import sys

LEVEL = "exploration"
RULE = ("generated invocations over a per-scenario clean directory: existing/missing paths and output directories, "
        "valid files / files with syntax errors / empty directories, 0-3 -m models (valid, unknown class, unresolved "
        "component type, bad modification), no target / -t sympy / -t casadi, well- and ill-formed -O options, argparse "
        "errors; distinct = digest of (files, argv); non-trivial = at least one error source or >=2 models")
ASSUMPTIONS = ["the count for invocations mixing error stages is not defined by the property; such invocations are only compared with each other",
               "exit statuses are kept below 256"]
REQUIRED_MONITORS = ["invocations", "independence_comparisons", "in_process_histories"]
BUDGET = {"quick": 60, "thorough": 900}

GOOD = {
    "A": "model A\n  Real x(start = 1);\n  parameter Real k = 2;\nequation\n  der(x) = -k * x;\nend A;\n",
    "B": "model B\n  Real y, z;\nequation\n  y = 2 * z + 1;\n  der(z) = y;\nend B;\n",
    "G": "model G\n  Real w;\n  parameter Real a = 1.5;\nequation\n  w = a * time;\nend G;\n",
}
BAD_MODEL = {
    "BadRef": "model BadRef\n  Missing m;\n  Real x;\nequation\n  x = 1;\nend BadRef;\n",
    "BadMod": "model Inner\n  Real q;\nend Inner;\nmodel BadMod\n  Inner i(nothere = 3);\nend BadMod;\n",
}
BROKEN = ["model Broken1\n  Real x\nequation\n  x = 1;\nend Broken1;\n", "model Broken2 Real x; equation x = ; end Broken2;\n",
          "modle Broken3 end Broken3;\n"]

WRAPPER = r"""
import json, sys
sys.argv = ["compiler"] + json.loads(sys.argv[1])
out = None
try:
    import tools.compiler as c
    rc = c.main(sys.argv[1:])
    out = ["return", rc]
except SystemExit as e:
    out = ["sysexit", e.code]
except BaseException as e:
    out = ["exception", type(e).__name__]
sys.stderr.flush()
print("\n@@OUTCOME@@" + json.dumps(out))
"""


def run_cli(argv, cwd, env_extra=None):
    env = dict(os.environ)
    p = subprocess.run([sys.executable, "-c", WRAPPER, json.dumps(argv)], cwd=cwd, env=env, capture_output=True,
                       text=True, timeout=300)
    for line in reversed(p.stdout.splitlines()):
        if line.startswith("@@OUTCOME@@"):
            return tuple(json.loads(line[len("@@OUTCOME@@"):]))
    return ("no-outcome", p.returncode, (p.stderr or "")[-300:])


def make_scenario(rng, d):
    """the exit status does not depend on how much is logged: any scenario may carry -v or -vv"""
    argv, expected, hint, tags, models = _make_scenario(rng, d)
    if rng.random() < (0.8 if "sympy-output-file-blocked" in tags else 0.35):
        v = rng.choice(["-v", "-vv", "-vv", "--verbose"])
        argv = argv + [v] if rng.random() < 0.5 else [v] + argv
        tags.add("verbosity:" + v)
    return argv, expected, hint, tags, models


def _make_scenario(rng, d):
    """-> (argv, expected outcome or None, key hint, tags, models list for the independence check or None)"""
    os.makedirs(d, exist_ok=True)
    kind = rng.choice(["success", "success", "usage", "parse", "model", "model", "model", "argparse", "nofiles", "mixed-models",
                       "dotted", "dotted", "ambiguous", "ambiguous"])
    target = rng.choice([None, None, "sympy", "casadi"])
    special = None
    if kind in ("dotted", "ambiguous"):
        special, kind = kind, "model"
        if special == "ambiguous":
            target = "casadi"
    tags = {"scenario:" + kind, "target:" + (target or "none")}
    argv = []

    def write(name, text):
        with open(os.path.join(d, name), "w") as f:
            f.write(text)
        return name
    out_opt = []
    if target == "sympy" or rng.random() < 0.2:
        os.makedirs(os.path.join(d, "out"), exist_ok=True)
        out_opt = ["-o", "out"]
    if kind == "argparse":
        choice = rng.choice(["target-without-model", "bad-target", "no-path", "missing-value"])
        write("A.mo", GOOD["A"])
        argv = {"target-without-model": ["A.mo", "-t", "sympy"], "bad-target": ["A.mo", "-m", "A", "-t", "sausage"],
                "no-path": ["-m", "A"], "missing-value": ["A.mo", "-m"]}[choice]
        tags.add("argparse:" + choice)
        return argv, ("sysexit", 2), "argparse:" + choice, tags, None
    if kind == "usage":
        n = 0
        paths = []
        write("A.mo", GOOD["A"])
        paths.append("A.mo")
        for i in range(rng.randint(0, 2)):
            paths.append("missing%d.mo" % i)
            n += 1
            tags.add("usage:missing-path")
        opts = []
        if rng.random() < 0.5:
            opts += ["-o", "no_such_dir"]
            n += 1
            tags.add("usage:bad-outdir")
        nbad = rng.randint(0, 2)
        for i in range(nbad):
            opts += ["-O", rng.choice(["novalue", "a=b=c", "=", "x"]) if False else rng.choice(["novalue", "a=b=c"])]
            n += 1
            tags.add("usage:malformed-option")
        if n == 0:
            opts += ["-o", "no_such_dir"]
            n = 1
        models = ["-m", "A"]
        if target:
            models += ["-t", target]
        rng.shuffle(paths)
        return paths + models + opts, ("return", n), "usage-errors", tags, None
    if kind == "nofiles":
        os.makedirs(os.path.join(d, "empty"), exist_ok=True)
        argv = ["empty"] + (["-m", "A"] if target or rng.random() < 0.5 else [])
        if target:
            argv += ["-t", target]
        return argv + out_opt, ("return", 1), "no-modelica-files", tags, None
    if kind == "parse":
        nb = rng.randint(1, 3)
        paths = []
        for i in range(nb):
            paths.append(write("Broken%d.mo" % i, rng.choice(BROKEN)))
        if rng.random() < 0.7:
            paths.append(write("A.mo", GOOD["A"]))
        if target == "casadi":
            target = rng.choice([None, "sympy"])     # the casadi branch does not parse the PATHs itself
            tags.add("target:" + (target or "none"))
        argv = list(paths)
        rng.shuffle(argv)
        if rng.random() < 0.6 or target:
            argv += ["-m", "A"]
        if target:
            argv += ["-t", target]
        return argv + out_opt, ("return", nb), "parse-errors", tags, None
    if special == "dotted":
        # dotted model names sharing a package: P.Good* flatten, P.Bad* fail; flatten-only or sympy
        if target == "casadi":
            target = rng.choice([None, "sympy"])
        tags.add("target:" + (target or "none"))
        pk = "package P\n" + "".join("  " + l + "\n" for l in (GOOD["A"] + GOOD["B"]).splitlines()) + \
             "  package Sub\n" + "".join("    " + l + "\n" for l in GOOD["G"].splitlines()) + "  end Sub;\n" + \
             "".join("  " + l + "\n" for l in BAD_MODEL["BadRef"].splitlines()) + "end P;\n"
        write("Pk.mo", pk)
        goodn = rng.sample(["P.A", "P.B", "P.Sub.G"], rng.randint(1, 3))
        badn = rng.sample(["P.BadRef", "P.Nowhere", "P.Sub.Nothing"], rng.randint(1, 2))
        models = goodn + badn
        rng.shuffle(models)
        argv = ["Pk.mo"]
        for m in models:
            argv += ["-m", m]
        if target:
            argv += ["-t", target]
        tags.add("dotted-model-names-in-one-package")
        return argv + out_opt, ("return", len(badn)), "model-failures:%s:dotted-names" % (target or "flatten"), tags, models
    if special == "ambiguous":
        # several files with the model's name among the PATHs: ambiguous -> one error, whatever their number
        ncopies = rng.randint(2, 4)
        for i in range(ncopies):
            os.makedirs(os.path.join(d, "d%d" % i), exist_ok=True)
            write(os.path.join("d%d" % i, "A.mo"), GOOD["A"])
        write("B.mo", GOOD["B"])
        models = ["A", "B"] if rng.random() < 0.5 else ["B", "A"]
        argv = ["."]
        for m in models:
            argv += ["-m", m]
        argv += ["-t", "casadi"]
        tags.add("ambiguous-model-file:%d-copies" % ncopies)
        return argv, ("return", 1), "model-failures:casadi:ambiguous-file", tags, None
    # success / model / mixed-models
    good = rng.sample(sorted(GOOD), rng.randint(1, 3))
    bad = []
    if kind in ("model", "mixed-models"):
        bad = rng.sample(["BadRef", "BadMod", "NoSuchClass"], rng.randint(1, 2))
        if kind == "model" and rng.random() < 0.5:
            good = []
    models = good + bad
    rng.shuffle(models)
    if target == "casadi" and rng.random() < 0.35:
        # a class that exists, but only inside a file of another name, cannot be located by the casadi
        # branch: it must be counted as a failed model wherever it stands in the list
        write("Extra.mo", "model Hidden\n  Real h;\nequation\n  h = 2;\nend Hidden;\n")
        models.insert(rng.randint(0, len(models)), "Hidden")
        bad.append("Hidden")
        tags.add("failing-model:Hidden-in-other-file")
    if target == "casadi":
        # one file per model, named after it; a model naming no file must be counted as well
        for m in models:
            if m in GOOD:
                write(m + ".mo", GOOD[m])
            elif m in BAD_MODEL:
                write(m + ".mo", BAD_MODEL[m])
        if not os.listdir(d) or all(not f.endswith(".mo") for f in os.listdir(d)):
            write("G.mo", GOOD["G"])
        argv = ["."]
    else:
        lib = "".join(GOOD[m] for m in sorted(GOOD)) + "".join(BAD_MODEL.values())
        write("Lib.mo", lib)
        argv = ["Lib.mo"]
    for m in models:
        argv += ["-m", m]
    if target:
        argv += ["-t", target]
    if rng.random() < 0.3 and target:
        argv += ["-O", "detect_aliases=True"]
        tags.add("option:well-formed")
    if target == "sympy" and good and rng.random() < 0.5:
        # the generated file of one model cannot be written (a directory of that name is in the way): that model fails
        blocked = rng.choice(good)
        os.makedirs(os.path.join(d, "out", blocked + ".py"), exist_ok=True)
        bad.append(blocked + "(output-file-blocked)")
        tags.add("sympy-output-file-blocked")
    for b in bad:
        tags.add("failing-model:" + b)
    hint = "model-failures:%s:%s" % (target or "flatten", "+".join(sorted(set(bad))) or "none")
    return argv + out_opt, ("return", len(bad)), hint, tags, (models if len(models) >= 2 else None)


def one(ctx, rng, k):
    d = os.path.join(ctx.work, "c26_%d" % k)
    shutil.rmtree(d, ignore_errors=True)
    try:
        argv, expected, hint, tags, models = make_scenario(rng, d)
        files = {}
        for root_, _, fs in os.walk(d):
            for f in fs:
                if f.endswith(".mo"):
                    rel = os.path.relpath(os.path.join(root_, f), d)
                    files[rel] = open(os.path.join(root_, f)).read()
        nt = expected != ("return", 0) or (models is not None)
        ctx.case({"files": files, "argv": argv}, nt, {"argv": argv, "files": sorted(files), "expected": expected} if k < 2 else None)
        for t in tags:
            ctx.cover(t)
        got = run_cli(argv, d)
        ctx.monitor("invocations")
        case = {"files": files, "argv": argv, "expected": list(expected), "hint": hint, "models": models}
        if tuple(got[:2]) != tuple(expected):
            kind = "exception-escapes-main:%s" % got[1] if got[0] == "exception" else \
                   "undercounted" if got[0] == "return" and expected[0] == "return" and got[1] < expected[1] else \
                   "overcounted" if got[0] == "return" and expected[0] == "return" else "outcome-%s" % got[0]
            ctx.violation("C26:%s:%s" % (hint, kind), "main(%s) -> %s, expected %s (files %s)" % (argv, got, expected, sorted(files)), case)
            return
        # independence: each model alone must sum up to the joint invocation
        if models and len(models) <= 3 and (ctx.tier == "thorough" or rng.random() < 0.5):
            base = [a for a in argv]
            total = 0
            ok = True
            for m in models:
                av, skip = [], False
                it = iter(range(len(argv)))
                j = 0
                while j < len(argv):
                    if argv[j] == "-m":
                        if argv[j + 1] == m and not skip:
                            av += ["-m", m]
                            skip = True
                        j += 2
                        continue
                    av.append(argv[j])
                    j += 1
                r = run_cli(av, d)
                ctx.monitor("invocations")
                if r[0] != "return":
                    ok = False
                    ctx.violation("C26:%s:alone-%s" % (hint, r[0]), "main(%s) -> %s" % (av, r), dict(case, alone=av))
                    break
                total += r[1]
            if ok:
                ctx.monitor("independence_comparisons")
                if got[0] == "return" and total != got[1]:
                    ctx.violation("C26:%s:together-differs-from-alone" % hint,
                                  "main(%s) -> %s but the models alone give %d in total" % (argv, got, total), case)
    finally:
        shutil.rmtree(d, ignore_errors=True)


WRAPPER_HISTORY = r"""
import json, os, sys
steps = json.loads(sys.argv[1])
outs = []
import tools.compiler as c
for st in steps:
    if "write" in st:
        for path, text in st["write"].items():
            with open(path, "w") as f:
                f.write(text)
        continue
    try:
        rc = c.main(list(st["argv"]))
        outs.append(["return", rc])
    except SystemExit as e:
        outs.append(["sysexit", e.code])
    except BaseException as e:
        outs.append(["exception", type(e).__name__])
sys.stderr.flush()
print("\n@@OUTCOME@@" + json.dumps(outs))
"""


def history(ctx, rng, k):
    """several invocations of main() in ONE process on the same paths, with the files rewritten in between: every
    invocation must count the errors of the files as they are at that moment."""
    d = os.path.join(ctx.work, "c26h_%d" % k)
    shutil.rmtree(d, ignore_errors=True)
    os.makedirs(os.path.join(d, "src"))
    os.makedirs(os.path.join(d, "out"))
    try:
        path = os.path.join(d, "src", "F.mo")
        steps, expected, descr = [], [], []
        state = None
        for _ in range(rng.randint(3, 6)):
            new = rng.choice(["A", "B", "broken", "A"])
            if new != state or rng.random() < 0.3:
                text = rng.choice(BROKEN) if new == "broken" else GOOD[new]
                steps.append({"write": {path: text}})
                descr.append("write:" + new)
                state = new
            target = rng.choice([[], ["-t", "sympy"]])
            if state == "broken":
                argv, exp = [os.path.join(d, "src")], 1
            else:
                want = rng.choice(["A", "B", None])
                if want is None:
                    argv, exp = [os.path.join(d, "src")], 0
                else:
                    argv = ["-m", want] + target + ["-o", os.path.join(d, "out"), os.path.join(d, "src")]
                    exp = 0 if want == state else 1
            steps.append({"argv": argv})
            expected.append(["return", exp])
            descr.append("main(%s)" % " ".join(a.replace(d, ".") for a in argv))
        p = subprocess.run([sys.executable, "-c", WRAPPER_HISTORY, json.dumps(steps)], cwd=d, env=dict(os.environ),
                           capture_output=True, text=True, timeout=600)
        outs = None
        for line in reversed(p.stdout.splitlines()):
            if line.startswith("@@OUTCOME@@"):
                outs = json.loads(line[len("@@OUTCOME@@"):])
                break
        ctx.case({"history": descr}, True, {"history": descr} if k < 1 else None)
        if outs is None:
            ctx.inconclusive("history subprocess produced no outcome: %s" % (p.stderr or "")[-300:])
            return
        ctx.monitor("invocations", len(outs))
        ctx.monitor("in_process_histories")
        ctx.cover("history-in-one-process")
        if outs != expected:
            i = next(j for j, (a, b) in enumerate(zip(outs, expected)) if a != b)
            ctx.violation("C26:history-in-one-process:invocation-counts-files-of-an-earlier-invocation" if outs[i][0] == "return" else
                          "C26:history-in-one-process:outcome-%s" % outs[i][0],
                          "in one process: %s -> outcomes %s, expected %s" % (descr, outs, expected), {"history": descr})
    finally:
        shutil.rmtree(d, ignore_errors=True)


def run_shard(ctx):
    for k in range(ctx.n(160, 10000)):
        if ctx.out_of_time():
            break
        ctx.guarded(one, ctx, ctx.rng, k, timeout=600)
        if k % 3 == 0:
            ctx.guarded(history, ctx, ctx.rng, k, timeout=600)


def replay(ctx, case):
    d = os.path.join(ctx.work, "c26_replay")
    shutil.rmtree(d, ignore_errors=True)
    os.makedirs(os.path.join(d, "out"))
    os.makedirs(os.path.join(d, "empty"))
    for f, t in case["files"].items():
        os.makedirs(os.path.dirname(os.path.join(d, f)), exist_ok=True)
        with open(os.path.join(d, f), "w") as fh:
            fh.write(t)
    got = run_cli(case["argv"], d)
    if tuple(got[:2]) != tuple(case["expected"]):
        ctx.violation("C26:%s:replayed" % case["hint"], "main(%s) -> %s, expected %s" % (case["argv"], got, case["expected"]), case)
