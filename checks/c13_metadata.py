"""C13 - variable metadata reports the declared attributes.

Reference-model monitor on the generated Model: for every variable of the five metadata lists the
attributes value/start/min/max/nominal/fixed are read (a) from the Variable object (numbers, or MX
evaluated at the parameter point) and (b) from variable_metadata_function(p), and compared with the
declared attribute expressions evaluated by the reference evaluator at p."""
import logging
import math

import numpy as np

from vf import adapters, mexpr
from vf.genflat import idx, num, var
from vf.worker import exc_sig

LEVEL = "exploration"
RULE = ("generated models whose variables (states, algebraics, inputs, parameters, constants; Real/Integer/"
        "Boolean; scalar, 1-D, 2-D) carry attribute expressions that are absent, literals, array literals, "
        "affine or non-affine in parameters; 5 parameter points per model incl. zeros and negatives; distinct = "
        "digest of model text; non-trivial = >=3 explicit attributes of >=2 different expression classes")
ASSUMPTIONS = ["attribute expressions only reference scalar Real parameters",
               "value bindings are only declared on parameters and constants (on other variables they are equations)"]
REQUIRED_MONITORS = ["variable_attribute_checks", "metadata_function_cells", "affine_path", "generic_path"]
BUDGET = {"quick": 40, "thorough": 600}
ATTRS = ("value", "min", "max", "start", "fixed", "nominal")      # CASADI_ATTRIBUTES order
DEFAULTS = {"value": float("nan"), "start": 0.0, "min": -math.inf, "max": math.inf, "nominal": 0.0, "fixed": 0.0}


def gen_attr_expr(rng, params, klass):
    p = [var(x) for x in params]
    c = lambda: num(round(rng.uniform(0.5, 5), 2))
    if (klass == "literal" or not p) and rng.random() < 0.15:
        # different literals that agree in their first six significant digits
        return num(rng.choice([0.9999999, 1.0000001, 1, 0.1234567, 0.1234568, 2.5000001, 2.5000002]))
    if klass == "literal" or not p:
        v = round(rng.uniform(-5, 5), 2)
        return num(v) if v >= 0 else ("neg", num(-v))
    if klass == "affine":
        e = ("bin", "*", c(), rng.choice(p))
        if rng.random() < 0.6:
            e = ("bin", rng.choice("+-"), e, ("bin", "/", rng.choice(p), c()) if rng.random() < 0.4 else c())
        if rng.random() < 0.2:
            e = ("neg", e)
        return e
    if klass == "quotient":
        # a quotient with a parameter-dependent denominator (never zero: |p| <= 4) and no product anywhere
        den = ("bin", "+", num(rng.randint(20, 40)), rng.choice(p))
        numr = rng.choice([("bin", "+", num(rng.randint(1, 9)), rng.choice(p)), rng.choice(p), num(rng.randint(1, 9))])
        return ("bin", "/", numr, den)
    if klass == "multilinear":
        # product of (at least) three different parameters: every second derivative vanishes at p = 0
        e = ("bin", "*", ("bin", "*", p[0], p[1]), p[2])
        if len(p) > 3 and rng.random() < 0.5:
            e = ("bin", "*", e, p[3])
        if rng.random() < 0.4:
            e = ("bin", "+", e, num(rng.randint(1, 9)))
        return e
    # non-affine
    a, b = rng.choice(p), rng.choice(p)
    return rng.choice([("bin", "*", a, b), ("bin", "^", a, num(2)), ("call", "sin", [a]),
                       ("bin", "+", ("call", "exp", [("bin", "/", a, num(4))]), b),
                       ("call", "max", [a, ("bin", "*", num(2), b)])])


def gen_case(rng, force_affine=None):
    tags = set()
    nparam = rng.randint(1, 3)
    if force_affine is None:
        force_affine = rng.random() < 0.5
    # a workload whose only parameter-dependent attributes are products of three or four different parameters
    multilinear = (not force_affine) and rng.random() < 0.25
    if multilinear:
        nparam = rng.randint(3, 4)
        tags.add("workload:multilinear-only")
    quotient_only = (not force_affine) and (not multilinear) and rng.random() < 0.2
    if quotient_only:
        tags.add("workload:quotient-only")
    params = ["p%d" % (i + 1) for i in range(nparam)]
    decls, ref = [], []       # ref: list of dicts name,list,type,dims,attrs{attr: expr}
    for pn in params:
        v = round(rng.uniform(0.5, 4), 2)
        attrs = {}
        if rng.random() < 0.3:
            attrs["min"] = num(0)
            attrs["max"] = num(10)
        ref.append({"name": pn, "list": "parameters", "type": "Real", "dims": [], "attrs": dict(attrs, value=num(v))})
        decls.append("  parameter Real %s%s = %s;" % (pn, fmt_mods(attrs), v))
    nvar = rng.randint(2, 6)
    states = []
    for i in range(nvar):
        lst = rng.choice(["states", "alg_states", "alg_states", "inputs", "parameters", "constants"])
        typ = rng.choice(["Real", "Real", "Real", "Integer", "Boolean"])
        if lst == "states":
            typ = "Real"
        dims = rng.choice([[], [], [], [rng.randint(2, 3)], [2, rng.randint(2, 3)], [rng.randint(2, 3), 1]])
        if typ != "Real":
            dims = rng.choice([[], [], [2]])
        name = "%s%d" % ("xyuqk"[["states", "alg_states", "inputs", "parameters", "constants"].index(lst)], i)
        attrs = {}
        klasses = ["literal", "affine"] if force_affine else ["literal", "affine", "nonaffine"]
        if multilinear:
            klasses = ["literal", "multilinear"]
        if quotient_only:
            klasses = ["literal", "quotient"]
        for a in ("start", "min", "max", "nominal"):
            if rng.random() < 0.45:
                if typ == "Boolean":
                    if a != "start":
                        continue
                    attrs[a] = ("bool", rng.random() < 0.5)
                    tags.add("attr:boolean-literal")
                    continue
                if typ == "Integer":
                    k = rng.randint(-4, 9)
                    attrs[a] = num(k) if k >= 0 else ("neg", num(-k))
                    tags.add("attr:integer-literal")
                    continue
                kl = rng.choice(klasses)
                if dims and rng.random() < 0.5:
                    n = int(np.prod(dims))
                    if len(dims) == 1:
                        if rng.random() < 0.4:
                            attrs[a] = ("arr", [gen_attr_expr(rng, params, kl if kl != "nonaffine" else "affine") for _ in range(n)])
                            tags.add("attr:array-with-parameter-refs")
                        else:
                            attrs[a] = ("arr", [gen_attr_expr(rng, params, "literal") for _ in range(n)])
                            tags.add("attr:array-literal")
                    elif dims[1] == 1 and rng.random() < 0.6:
                        # an n-by-1 variable whose attribute is a column of parameter expressions
                        attrs[a] = ("arr", [("arr", [gen_attr_expr(rng, params, kl if kl != "nonaffine" else "affine")]) for _ in range(dims[0])])
                        tags.add("attr:n-by-1-array-with-parameter-refs")
                    else:
                        attrs[a] = ("arr", [("arr", [gen_attr_expr(rng, params, "literal") for _ in range(dims[1])])
                                            for _ in range(dims[0])])
                        tags.add("attr:array-literal-2d")
                else:
                    attrs[a] = gen_attr_expr(rng, params, kl)
                    tags.add("attr:" + kl)
        if rng.random() < 0.3:
            attrs["fixed"] = ("bool", rng.random() < 0.6)
            tags.add("attr:fixed")
        value = None
        if lst in ("parameters", "constants"):
            if typ == "Boolean":
                value = ("bool", rng.random() < 0.5)
            elif typ == "Integer":
                value = num(rng.randint(0, 9))
            elif lst == "parameters" and not dims and rng.random() < 0.5:
                value = gen_attr_expr(rng, params, rng.choice(klasses))
                tags.add("value:parameter-expression")
            elif dims:
                if len(dims) == 1:
                    value = ("arr", [gen_attr_expr(rng, params, "literal") for _ in range(dims[0])])
                else:
                    value = ("arr", [("arr", [gen_attr_expr(rng, params, "literal") for _ in range(dims[1])]) for _ in range(dims[0])])
                tags.add("value:array-literal")
            else:
                value = gen_attr_expr(rng, params, "literal")
        pf = {"states": "", "alg_states": "", "inputs": "input ", "parameters": "parameter ", "constants": "constant "}[lst]
        d = "  %s%s %s%s%s" % (pf, typ, name, "[%s]" % ", ".join(map(str, dims)) if dims else "", fmt_mods(attrs))
        if value is not None:
            d += " = " + mexpr.to_text(value)
        decls.append(d + ";")
        full = dict(attrs)
        if value is not None:
            full["value"] = value
        ref.append({"name": name, "list": lst, "type": typ, "dims": dims, "attrs": full})
        tags.add("list:%s" % lst)
        tags.add("shape:%dd" % len(dims))
        tags.add("type:" + typ)
        if lst == "states":
            states.append((name, dims))
    options = {}
    if rng.random() < 0.3:
        options = {"expand_vectors": True}
        tags.add("option:expand_vectors")
    if rng.random() < 0.3:
        # an array parameter used as a (symbolic) array attribute of a variable of the same shape
        ldims = rng.choice([[rng.randint(2, 3)], [2, 3], [3, 2]])
        lval = ("arr", [num(round(rng.uniform(1, 9), 1)) for _ in range(ldims[0])]) if len(ldims) == 1 else \
            ("arr", [("arr", [num(round(rng.uniform(1, 9), 1)) for _ in range(ldims[1])]) for _ in range(ldims[0])])
        decls.append("  parameter Real L[%s] = %s;" % (", ".join(map(str, ldims)), mexpr.to_text(lval)))
        ref.append({"name": "L", "list": "parameters", "type": "Real", "dims": ldims, "attrs": {"value": lval}})
        la = {"max": var("L"), "min": ("bin", "*", ("neg", num(3)), var("L"))}
        if rng.random() < 0.5:
            la["nominal"] = ("bin", "+", ("bin", "*", num(2), var("L")), num(1))
        decls.append("  Real zl[%s]%s;" % (", ".join(map(str, ldims)), fmt_mods(la)))
        ref.append({"name": "zl", "list": "alg_states", "type": "Real", "dims": ldims, "attrs": la})
        array_params = {"L": ldims}
        tags.add("attr:symbolic-array-of-array-parameter")
    else:
        array_params = {}
    eqs = []
    for name, dims in states:
        eqs.append("  der(%s) = %s;" % (name, "zeros(%s)" % ", ".join(map(str, dims)) if dims else "1"))
    text = "model M\n" + "\n".join(decls) + "\n" + ("equation\n" + "\n".join(eqs) + "\n" if eqs else "") + "end M;\n"
    return text, ref, params, tags, force_affine, options, array_params


def fmt_mods(attrs):
    if not attrs:
        return ""
    return "(" + ", ".join("%s = %s" % (k, mexpr.to_text(v)) for k, v in attrs.items()) + ")"


def ref_attr(r, a, env):
    """reference value of attribute a of variable r at env, as a flat column-major vector."""
    n = int(np.prod(r["dims"])) if r["dims"] else 1
    if a not in r["attrs"]:
        return np.full(n, DEFAULTS[a])
    v = mexpr.evaluate(r["attrs"][a], env, "casadi")
    v = np.asarray(v, dtype=float)
    if "elem" in r and v.ndim > 0:
        v = np.asarray(v[tuple(r["elem"])], dtype=float)
    if v.ndim == 0:
        return np.full(n, float(v))
    return v.reshape(-1, order="F")


def expand_ref(ref):
    out = []
    for r in ref:
        if r["dims"]:
            for ind in np.ndindex(*r["dims"]):
                out.append(dict(r, name="%s[%s]" % (r["name"], ",".join(str(i + 1) for i in ind)), dims=[], elem=list(ind)))
        else:
            out.append(r)
    return out


def same(a, b):
    a, b = np.asarray(a, dtype=float).reshape(-1), np.asarray(b, dtype=float).reshape(-1)
    if a.shape != b.shape:
        return False
    for x, y in zip(a, b):
        if math.isnan(x) and math.isnan(y):
            continue
        if math.isinf(x) or math.isinf(y):
            if x != y:
                return False
            continue
        if abs(x - y) > 1e-9 * max(1.0, abs(x), abs(y)):
            return False
    return True


def check(ctx, text, ref, params, tags, rng, options=None, array_params=None):
    import casadi as ca
    from pymoca import parser
    from pymoca.backends.casadi import generator
    options = dict(options or {})
    array_params = dict(array_params or {})
    case = {"text": text, "ref": ref, "params": params, "tags": sorted(tags), "options": options, "array_params": array_params}
    feat = "core"
    if options.get("expand_vectors"):
        ref = expand_ref(ref)
    try:
        tree = parser.parse(text, bypass_cache=True)
        if tree is None:
            raise SyntaxError("generated text rejected")
        model = generator.generate(tree, "M", dict(options))
        model.simplify(dict(options))
        fmeta = model.variable_metadata_function
    except Exception as e:
        ctx.violation("C13:%s:generate-raises:%s" % (feat, exc_sig(e)), "generation raised %r\n%s" % (e, text), case)
        return
    affine_rebuilt = fmeta.name_in(0) == "in_var" if hasattr(fmeta, "name_in") else None
    try:
        affine_rebuilt = "in_var" in str(fmeta.mx_in(0))
    except Exception:
        pass
    ctx.monitor("affine_path" if affine_rebuilt else "generic_path")
    lists = {k: getattr(model, k) for k in ("states", "alg_states", "inputs", "parameters", "constants")}
    byname = {}
    for k, l in lists.items():
        for v in l:
            byname[v.symbol.name()] = (k, v)
    psyms = [v.symbol for v in model.parameters]
    pnames = [v.symbol.name() for v in model.parameters]
    # python types and list membership
    for r in ref:
        if r["name"] not in byname:
            ctx.violation("C13:%s:variable-missing" % feat, "%s missing from the metadata lists\n%s" % (r["name"], text), case)
            return
        k, v = byname[r["name"]]
        want = {"Real": float, "Integer": int, "Boolean": bool}[r["type"]]
        if v.python_type is not want:
            ctx.violation("C13:%s:python-type:%s" % (feat, r["type"]),
                          "%s has python_type %s, declared %s\n%s" % (r["name"], v.python_type, r["type"], text), case)
            return
    pts = []
    for j in range(5):
        if j == 0:
            pt = {p: 0.0 for p in params}
        elif j == 1:
            pt = {p: -round(rng.uniform(0.5, 3), 2) for p in params}
        else:
            pt = {p: round(rng.uniform(-4, 4), 2) for p in params}
        pts.append(pt)
    for pt in pts:
        for an, ad in array_params.items():
            pt[an] = np.array([round(rng.uniform(-4, 4), 2) for _ in range(int(np.prod(ad)))]).reshape(ad)
        env = dict(pt)
        # non-scalar / other parameters of the model (named q..) are not referenced by expressions
        pvec = []
        for vparam in model.parameters:
            nm = vparam.symbol.name()
            n = vparam.symbol.numel()
            base, ix = adapters.split_indexed_name(nm)
            if nm in pt:
                pvec.extend(np.asarray(pt[nm], dtype=float).reshape(-1, order="F").tolist())
            elif ix and base in pt:
                pvec.append(float(np.asarray(pt[base])[ix]))
            else:
                pvec.extend([0.5] * n)
        try:
            out = fmeta.call([ca.DM(pvec)])
        except Exception as e:
            ctx.violation("C13:%s:metadata-function-raises:%s" % (feat, type(e).__name__),
                          "variable_metadata_function raised %r\n%s" % (e, text), case)
            return
        mats = dict(zip(("states", "alg_states", "inputs", "parameters", "constants"),
                        [np.array(o, dtype=float) for o in out]))
        # expected matrices
        for k, l in lists.items():
            rows = []
            for v in l:
                r = next((x for x in ref if x["name"] == v.symbol.name()), None)
                if r is None:
                    rows = None
                    break
                try:
                    cols = [ref_attr(r, a, env) for a in ATTRS]
                except mexpr.Undefined:
                    rows = None
                    break
                rows.append(np.stack(cols, axis=1))
            if rows is None:
                continue
            exp = np.concatenate(rows, axis=0) if rows else np.zeros((0, 6))
            got = mats[k]
            if got.size == 0 and exp.size == 0:
                continue
            ctx.monitor("metadata_function_cells", int(exp.size))
            if got.shape != exp.shape:
                ctx.violation("C13:%s:metadata-shape:%s" % (feat, k),
                              "metadata matrix for %s has shape %s, expected %s\n%s" % (k, got.shape, exp.shape, text), case)
                return
            for ci, a in enumerate(ATTRS):
                if not same(got[:, ci], exp[:, ci]):
                    ctx.violation("C13:%s:metadata-function:%s:%s" % (feat, "affine" if affine_rebuilt else "generic", a),
                                  "variable_metadata_function(%s) column %s of %s = %s, expected %s\n%s" % (
                                      pt, a, k, got[:, ci], exp[:, ci], text), case)
                    return
        # Variable objects
        for r in ref:
            k, v = byname[r["name"]]
            for a in ATTRS:
                val = getattr(v, a)
                try:
                    exp = ref_attr(r, a, env)
                except mexpr.Undefined:
                    continue
                try:
                    if isinstance(val, ca.MX):
                        f = ca.Function("a", psyms, [val])
                        got = np.array(f.call([ca.DM([pvec_i]) if False else ca.DM(x) for x in split(pvec, model.parameters)])[0], dtype=float)
                    else:
                        try:
                            got = np.array(ca.DM(val), dtype=float)
                        except Exception:
                            got = np.asarray(val, dtype=float)
                except Exception as e:
                    ctx.violation("C13:%s:attribute-unreadable:%s" % (feat, a),
                                  "%s.%s = %r cannot be evaluated: %r\n%s" % (r["name"], a, val, e, text), case)
                    return
                ctx.monitor("variable_attribute_checks")
                g = got.reshape(-1, order="F")
                if g.size == 1 and exp.size > 1:
                    g = np.full(exp.size, g[0])
                if not same(g, exp):
                    ctx.violation("C13:%s:variable-attribute:%s" % (feat, a),
                                  "%s.%s = %s at %s, expected %s\n%s" % (r["name"], a, g, pt, exp, text), case)
                    return


def split(pvec, parameters):
    out, i = [], 0
    for v in parameters:
        n = v.symbol.numel()
        out.append(np.array(pvec[i:i + n]).reshape(v.symbol.size1(), v.symbol.size2(), order="F"))
        i += n
    return out


def one(ctx, rng, k):
    text, ref, params, tags, fa, options, array_params = gen_case(rng)
    nexp = sum(len(r["attrs"]) for r in ref)
    kinds = {t for t in tags if t.startswith("attr:") or t.startswith("value:")}
    ctx.case(text, nexp >= 3 and len(kinds) >= 2, {"model": text} if k < 1 else None)
    for t in tags:
        ctx.cover(t)
    ctx.cover("workload:affine-only" if fa else "workload:with-nonaffine")
    check(ctx, text, ref, params, tags, rng, options, array_params)


def run_shard(ctx):
    logging.getLogger("pymoca").setLevel(logging.ERROR)
    for k in range(ctx.n(5000, 50000)):
        if ctx.out_of_time():
            break
        ctx.guarded(one, ctx, ctx.rng, k, timeout=30)


def replay(ctx, case):
    logging.getLogger("pymoca").setLevel(logging.ERROR)
    from checks.c03_expr_precedence import _retree
    ref = [dict(r, attrs={k: _retree(v) for k, v in r["attrs"].items()}) for r in case["ref"]]
    check(ctx, case["text"], ref, case["params"], set(case["tags"]), ctx.rng, case.get("options"), case.get("array_params"))
