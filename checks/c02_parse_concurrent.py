"""C02 - concurrent parses sharing a cache folder all succeed.

(a) controlled schedules: 2-3 worker threads call parse() on one cache folder; a proxy in
    pymoca.parser's namespace turns every sqlite call into a scheduling point and a scheduler
    releases the workers according to a schedule word (all schedules with <= 1 preemption, random
    words; thorough: <= 2 preemptions).  A worker that does not return from a sqlite call is
    waiting for a database lock; the scheduler then releases the next one.
(b) free-running stress: 2..16 real processes released together by a file barrier, with and
    without small random delays at the same points.
(c) thorough: 4-8 free-running threads with sys.monitoring LINE callbacks yielding at random
    statement starts of parse/_parse_cached/_check_database_structure.
Oracle: every call returns the digest of the uncached parse; no exception; the database file is
never removed (audit event / proxy event); afterwards PRAGMA integrity_check is ok and the rows
satisfy C01's invariant."""
import hashlib
import itertools
import json
import logging
import os
import pickle
import shutil
import sqlite3
import subprocess
import sys
import threading
import time
from pathlib import Path

from vf import canon, mlib, sqlproxy

LEVEL = "exploration"
RULE = ("controlled schedules of 2-3 parse() calls at SQL-statement granularity over database states "
        "{absent, existing-unchecked, existing-checked, existing-with-entry, wrong-layout} x texts {same, different}: "
        "every schedule with <= 1 preemption (thorough: <= 2) and seeded random schedule words; workers may see the folder through "
        "their own symlink (own 'already checked' memory, like another process) and use expiration 0; free-running stress with "
        "2/4/8/16 processes released by a barrier (with/without <= 5 ms random delays at sqlite calls; also on a cache folder that does not exist yet); distinct = digest of "
        "the realised schedule signature (worker, SQL kind, outcome) or of the stress configuration+round; non-trivial = "
        ">= 2 workers each executed >= 3 database calls")
ASSUMPTIONS = ["the database is never corrupt in this workload (that is C01's), so an os.remove of it is a deletion of a live database",
               "a call that fails after a statement waited >= 4.5 s of the 5 s busy timeout is inconclusive (machine load), not a violation",
               "a worker that has not returned from a sqlite call after 30 ms is treated as waiting for a lock; the resulting interleavings are all real executions"]
REQUIRED_MONITORS = ["calls_checked", "controlled_schedules_run", "sqlite_calls_scheduled", "stress_rounds_run", "db_integrity_checks", "db_rows_after_run"]
BUDGET = {"quick": 150, "thorough": 1800}
VERSION = "1.0.vfc02"

DB_STATES = ["absent", "existing-unchecked", "existing-checked", "existing-with-entry", "wrong-layout"]
# the cache folder itself does not exist yet (free-running modes: the race is in the folder creation, before any sqlite call)
FOLDER_ABSENT = "folder-absent"


def texts_for(rng, n):
    out = []
    for i in range(n):
        g = mlib.LibGen(rng, "flatten")
        out.append(mlib.print_library(g.build()) + "\n// c02 text %d %d\n" % (i, rng.randint(0, 10 ** 9)))
    return out


def prepare_db(parser, folder, state, texts, rng):
    """-> database path; leaves parse.initialized_dbs in the wanted state for this path."""
    db = Path(folder) / "model_txt_cache.db"
    if state in ("absent", FOLDER_ABSENT):
        return db
    other = "model Seed%d Real x; equation x = 1; end Seed%d;" % (rng.randint(0, 10 ** 6), rng.randint(0, 10 ** 6))
    first = state.endswith(":entry-first") or (state == "existing-with-entry" and rng.random() < 0.5)
    state = state.split(":")[0]
    if state == "existing-with-entry" and first:
        parser.parse(texts[0], model_cache_folder=Path(folder))      # the entry is the first row of the table
        parser.parse(other, model_cache_folder=Path(folder))
    else:
        parser.parse(other, model_cache_folder=Path(folder))
        if state == "existing-with-entry":
            parser.parse(texts[0], model_cache_folder=Path(folder))
    if state == "wrong-layout":
        c = sqlite3.connect(str(db), isolation_level=None)
        c.execute("DROP TABLE models")
        c.execute("CREATE TABLE models (txt_hash TEXT, pymoca_version TEXT, data TEXT, last_hit INTEGER)")
        c.close()
    if state != "existing-checked":
        if hasattr(parser.parse, "initialized_dbs"):
            parser.parse.initialized_dbs.discard(db)
    return db


def check_db_after(ctx, db, valid_hashes):
    """-> None or (key, text)"""
    if not os.path.exists(db):
        return ("database-missing-after-run", "the cache database file does not exist after the concurrent calls")
    try:
        c = sqlite3.connect("file:%s?mode=ro" % db, uri=True)
        res = c.execute("PRAGMA integrity_check").fetchone()
        rows = c.execute("SELECT txt_hash, data FROM models").fetchall()
        c.close()
    except sqlite3.OperationalError as e:
        if "locked" in str(e):
            # a connection abandoned by a failed call still holds a lock: the failure itself is reported by the call
            ctx.inconclusive("the database could not be read after the run: %s" % e)
            return None
        return ("database-unreadable-after-run:%s" % type(e).__name__, "reading the database after the run failed: %s" % e)
    except sqlite3.Error as e:
        return ("database-unreadable-after-run:%s" % type(e).__name__, "reading the database after the run failed: %s" % e)
    ctx.monitor("db_integrity_checks")
    if res != ("ok",):
        return ("integrity-check-fails", "PRAGMA integrity_check = %r after the run" % (res,))
    for h, data in rows:
        try:
            obj = pickle.loads(data)
        except Exception as e:
            return ("row-does-not-unpickle", "a row written during the run does not unpickle: %r" % e)
        if obj is None:
            return ("none-stored", "a row holds None")
    ctx.monitor("db_rows_after_run", len(rows))
    return None


def msg_class(m):
    m = m.lower()
    for k in ("database is locked", "no such table", "no such column", "already exists", "unique constraint", "not a database",
              "malformed", "no such file", "disk i/o", "readonly", "cannot start a transaction", "no transaction"):
        if k in m:
            return k.replace(" ", "-")
    return "other"


# ------------------------------------------------------------------------------------------------
# (a) controlled schedules

def run_schedule(ctx, rng, idx, state, nworkers, same_text, word, label, variant=None):
    import pymoca
    parser = sys.modules["pymoca.parser"]
    folder = os.path.join(ctx.work, "c02_%d" % idx)
    shutil.rmtree(folder, ignore_errors=True)
    os.makedirs(folder)
    saved_version = pymoca.__version__
    pymoca.__version__ = VERSION
    try:
        texts = texts_for(rng, 1 if same_text else nworkers)
        wtexts = [texts[0] if same_text else texts[i] for i in range(nworkers)]
        refs = [canon.digest(parser.parse(t, bypass_cache=True)) for t in wtexts]
        db = prepare_db(parser, folder, state, wtexts, rng)
        sched = sqlproxy.Scheduler(nworkers, word)
        hub = sqlproxy.Hub(sched=sched, db_path=db)
        hub.db_name = "model_txt_cache.db"
        results = [None] * nworkers
        upd = [rng.random() < 0.5 for _ in range(nworkers)]
        # each worker may see the folder through its own symlink: parse() keys its "already checked" memory by path,
        # so such a worker behaves like a separate process (it runs its own check and prune, also while another
        # worker that checked earlier is in the middle of a lookup).  Expiration 0 makes that prune delete every row.
        views, expd = [], []
        for i in range(nworkers):
            own_view = rng.random() < 0.5 if variant is None else (i > 0 and bool(variant & 1))
            if own_view:
                link = os.path.join(ctx.work, "c02_%d_view%d" % (idx, i))
                if os.path.lexists(link):
                    os.remove(link)
                os.symlink(folder, link)
                views.append(link)
                ctx.cover("worker-with-own-view-of-folder")
            else:
                views.append(folder)
            expd.append((0 if rng.random() < 0.35 else 30) if variant is None else (0 if (i > 0 and variant & 2) else 30))
            if expd[-1] == 0:
                ctx.cover("worker-with-expiration-0")

        def worker(i):
            hub.register(i)
            try:
                t = parser.parse(wtexts[i], model_cache_folder=Path(views[i]), always_update_last_hit=upd[i], cache_expiration_days=expd[i])
                results[i] = ("ok", None if t is None else canon.digest(t))
            except BaseException as e:
                from vf.worker import exc_sig
                results[i] = ("exc", type(e).__name__, str(e)[:200], exc_sig(e))
            finally:
                sched.finish(i)

        with sqlproxy.Installed(hub):
            ths = [threading.Thread(target=worker, args=(i,), daemon=True) for i in range(nworkers)]
            for t in ths:
                t.start()
            status = sched.control()
            for t in ths:
                t.join(timeout=20)
        ctx.monitor("controlled_schedules_run")
        sig = sched.signature()
        ctx.monitor("sqlite_calls_scheduled", len(sig))
        per_worker = [sum(1 for w, _, _ in sig if w == i) for i in range(nworkers)]
        nt = sum(1 for c in per_worker if c >= 3) >= 2
        ctx.case({"state": state, "same": same_text, "sig": sig}, nt,
                 {"label": label, "db_state": state, "same_text": same_text, "signature": sig[:60]} if idx < 1 else None)
        ctx.cover("schedule:%s" % label.split(":")[0])
        ctx.cover("db-state:%s" % state)
        if any(o.startswith("blocked") for _, _, o in sig):
            ctx.cover("schedules-with-a-worker-blocked-on-a-lock")
        ctx.cover("preemptions:%d" % min(sched.preemptions, 3))
        if status == "watchdog" or any(t.is_alive() for t in ths):
            ctx.inconclusive("watchdog: schedule %s on %s did not finish" % (label, state))
            return
        case = {"mode": "controlled", "state": state, "nworkers": nworkers, "same_text": same_text, "word": list(word), "label": label, "variant": variant,
                "signature": sig, "texts": wtexts}
        slow = any(e[3] >= 4.5 for e in hub.events)
        for i, r in enumerate(results):
            ctx.monitor("calls_checked")
            if r is None:
                ctx.inconclusive("worker %d produced no result" % i)
            elif r[0] == "exc":
                if slow:
                    ctx.inconclusive("call failed after a statement waited >= 4.5 s (%s)" % r[2])
                    continue
                ctx.violation("C02:call-raises:%s:%s" % (r[1], msg_class(r[2])),
                              "controlled schedule %s, database %s, %d workers (%s text): parse() raised %s: %s\nschedule: %s"
                              % (label, state, nworkers, "same" if same_text else "different", r[1], r[2], sig), case)
            elif r[1] != refs[i]:
                ctx.violation("C02:wrong-tree-returned", "worker %d got a tree that differs from the uncached parse (schedule %s, database %s)" % (i, label, state), case)
        if hub.removed:
            ctx.violation("C02:database-removed-while-in-use", "os.remove of the live cache database by worker(s) %s (schedule %s, database %s)\nschedule: %s"
                          % (hub.removed, label, state, sig), case)
        bad = check_db_after(ctx, db, None)
        if bad:
            ctx.violation("C02:" + bad[0], "%s (schedule %s, database %s)" % (bad[1], label, state), case)
        # what a call stored must still be there at the end, unless some call pruned with expiration 0 or a
        # database call failed (then the text was parsed without the cache): nobody may drop another call's entry
        clean_run = all(e[2] == "ok" for e in hub.events) and all(x == 30 for x in expd) and all(r and r[0] == "ok" for r in results)
        if clean_run and not bad:
            try:
                c = sqlite3.connect("file:%s?mode=ro" % db, uri=True)
                have = {h for (h,) in c.execute("SELECT txt_hash FROM models WHERE pymoca_version=?", (VERSION,))}
                c.close()
                ctx.monitor("stored_entries_checked")
                missing = [i for i, t in enumerate(wtexts) if hashlib.sha256(t.encode("utf-8")).hexdigest() not in have]
                if missing:
                    ctx.violation("C02:entry-stored-by-one-call-deleted-by-another",
                                  "after the run the database has no entry for the text of worker(s) %s although every database call "
                                  "succeeded and nobody pruned (schedule %s, database %s)\nschedule: %s" % (missing, label, state, sig), case)
            except sqlite3.Error:
                pass
    finally:
        pymoca.__version__ = saved_version
        if hasattr(parser.parse, "initialized_dbs"):
            parser.parse.initialized_dbs.discard(Path(folder) / "model_txt_cache.db")
            for i in range(nworkers):
                parser.parse.initialized_dbs.discard(Path(os.path.join(ctx.work, "c02_%d_view%d" % (idx, i))) / "model_txt_cache.db")
        for i in range(nworkers):
            link = os.path.join(ctx.work, "c02_%d_view%d" % (idx, i))
            if os.path.islink(link):
                os.remove(link)
        shutil.rmtree(folder, ignore_errors=True)


BIG = 400


def one_preemption_words(nworkers, maxk):
    for perm in itertools.permutations(range(nworkers)):
        for k in range(0, maxk + 1):
            w = [perm[0]] * k
            for p in perm[1:]:
                w += [p] * BIG
            w += [perm[0]] * BIG
            yield "1p:%s@%d" % ("".join(map(str, perm)), k), w


def two_preemption_words(maxk, step=1):
    for a, b in ((0, 1), (1, 0)):
        for k in range(0, maxk + 1, step):
            for j in range(1, maxk + 1, step):
                yield "2p:%d%d@%d,%d" % (a, b, k, j), [a] * k + [b] * j + [a] * BIG + [b] * BIG


def controlled(ctx):
    rng = ctx.rng
    jobs = []
    maxk = 34
    for state in DB_STATES:
        for same in (True, False):
            for label, w in one_preemption_words(2, maxk):
                jobs.append((state, 2, same, w, label, 0))
    # the second worker behaves like another process (own view of the folder => own check and prune) with expiration 0
    for state in ("existing-with-entry:entry-first", "existing-with-entry:entry-last", "existing-checked", "existing-unchecked"):
        for variant in ((3,) if ctx.quick() else (1, 2, 3)):
            for label, w in one_preemption_words(2, maxk):
                jobs.append((state, 2, False, w, label + ":v%d" % variant, variant))
    if not ctx.quick():
        for state in DB_STATES:
            for same in (True, False):
                for label, w in two_preemption_words(maxk, 2):
                    jobs.append((state, 2, same, w, label, None))
                for label, w in one_preemption_words(3, maxk):
                    jobs.append((state, 3, same, w, label, None))
    nrand = 300 if ctx.quick() else 20000
    r0 = ctx.subrng("c02-random-words")
    for k in range(nrand):
        nw = r0.choice([2, 2, 3])
        # random words with short runs, so that many context switches occur
        w = []
        while len(w) < 150:
            w += [r0.randrange(nw)] * r0.choice([1, 1, 2, 3, 5])
        jobs.append((r0.choice(DB_STATES), nw, r0.random() < 0.5, w, "rnd:%d" % k, None))
    nsh = ctx.controlled_shards
    for j, (state, nw, same, w, label, variant) in enumerate(jobs):
        if j % nsh != ctx.shard or ctx.out_of_time():
            continue
        ctx.guarded(run_schedule, ctx, rng, j, state, nw, same, w, label, variant, timeout=120)


# ------------------------------------------------------------------------------------------------
# (b) free-running process stress

def stress_round(ctx, rng, idx, nproc, state, delay, same_text):
    import pymoca
    parser = sys.modules["pymoca.parser"]
    folder = os.path.join(ctx.work, "c02s_%d" % idx)
    shutil.rmtree(folder, ignore_errors=True)
    os.makedirs(os.path.join(folder, "cache"))
    saved_version = pymoca.__version__
    pymoca.__version__ = VERSION
    procs = []
    try:
        texts = texts_for(rng, 3)
        paths = []
        for i, t in enumerate(texts):
            p = os.path.join(folder, "t%d.mo" % i)
            with open(p, "w") as f:
                f.write(t)
            paths.append(p)
        cache = os.path.join(folder, "cache")
        if state == FOLDER_ABSENT:
            os.rmdir(cache)
            cache = os.path.join(folder, "not", "yet", "there")
        db = prepare_db(parser, cache, state, texts, rng)
        go = os.path.join(folder, "go")
        for i in range(nproc):
            mine = paths[:1] if same_text else [paths[(i + k) % 3] for k in range(rng.randint(1, 3))]
            out = os.path.join(folder, "out%d.json" % i)
            procs.append((subprocess.Popen([sys.executable, "-m", "vf.c02proc", cache, os.path.join(folder, "ready%d" % i), go,
                                            str(rng.randrange(10 ** 9)), "1" if delay else "0", out] + mine,
                                           stdout=subprocess.DEVNULL, stderr=subprocess.PIPE), out))
        t_end = time.time() + 60
        while time.time() < t_end and not all(os.path.exists(os.path.join(folder, "ready%d" % i)) for i in range(nproc)):
            time.sleep(0.01)
        open(go, "w").close()
        label = "%d-processes:%s:%s:%s" % (nproc, state, "delays" if delay else "no-delays", "same-text" if same_text else "different-texts")
        case = {"mode": "stress", "nproc": nproc, "state": state, "delay": delay, "same_text": same_text}
        done = 0
        for p, out in procs:
            try:
                _, err = p.communicate(timeout=90)
            except subprocess.TimeoutExpired:
                p.kill()
                ctx.inconclusive("stress child did not finish within 90 s (%s)" % label)
                continue
            if not os.path.exists(out):
                ctx.inconclusive("stress child wrote no result (%s): %s" % (label, err.decode(errors="replace")[-300:]))
                continue
            r = json.load(open(out))
            done += 1
            for c in r["calls"]:
                ctx.monitor("calls_checked")
                if "exception" in c:
                    if c.get("slow_statement"):
                        ctx.inconclusive("call failed after a statement waited >= 4.5 s (%s)" % c["message"])
                        continue
                    ctx.violation("C02:call-raises:%s:%s" % (c["exception"], msg_class(c["message"])),
                                  "free-running %s: parse() raised %s: %s (at %s)" % (label, c["exception"], c["message"], c.get("site")), case)
                elif not c["ok"]:
                    ctx.violation("C02:wrong-tree-returned", "free-running %s: a call returned a tree that differs from the uncached parse" % label, case)
            if r["removed"]:
                ctx.violation("C02:database-removed-while-in-use", "free-running %s: a process removed the live cache database" % label, case)
            ctx.monitor("sqlite_calls_observed", r["events"])
        ctx.monitor("stress_rounds_run")
        ctx.cover("stress:%d-processes" % nproc)
        ctx.cover("stress-db-state:%s" % state)
        ctx.case({"stress": label, "round": idx, "seed": ctx.seed}, done >= 2, {"stress": label, "children_finished": done} if idx < 1 else None)
        bad = check_db_after(ctx, db, None)
        if bad:
            ctx.violation("C02:" + bad[0], "%s (free-running %s)" % (bad[1], label), case)
    finally:
        for p, _ in procs:
            if p.poll() is None:
                p.kill()
        pymoca.__version__ = saved_version
        shutil.rmtree(folder, ignore_errors=True)


def stress(ctx, k):
    rng = ctx.rng
    rounds = 20 if ctx.quick() else 300
    nsh = max(1, ctx.nshards - ctx.controlled_shards)
    for r in range(rounds):
        if r % nsh != k or ctx.out_of_time():
            continue
        nproc = [2, 4, 8, 16][r % 4]
        state = ["absent", FOLDER_ABSENT, "existing-unchecked", "wrong-layout", "existing-with-entry", FOLDER_ABSENT][(r // 4) % 6]
        ctx.guarded(stress_round, ctx, rng, r, nproc, state, delay=(r // 2) % 2 == 1, same_text=(r % 3 == 0), timeout=300)


# ------------------------------------------------------------------------------------------------
# (c) free-running threads with yield injection

def threads_round(ctx, rng, idx, nthreads, state, inject):
    import pymoca
    parser = sys.modules["pymoca.parser"]
    folder = os.path.join(ctx.work, "c02t_%d" % idx)
    shutil.rmtree(folder, ignore_errors=True)
    os.makedirs(folder)
    saved_version = pymoca.__version__
    pymoca.__version__ = VERSION
    mon = sys.monitoring
    tool = 3
    injected = [0]
    try:
        texts = texts_for(rng, 3)
        # one of the concurrent texts has a syntax error (its call must return None, and it must not disturb the others)
        texts.append(texts[0].replace(";", "", 1) + "\nmodel Unfinished Real x\n")
        refs = []
        for t in texts:
            tr = parser.parse(t, bypass_cache=True)
            refs.append(None if tr is None else canon.digest(tr))
        if state == FOLDER_ABSENT:
            folder = os.path.join(folder, "not", "yet", "there")
        db = prepare_db(parser, folder, state, texts, rng)
        hub = sqlproxy.Hub(db_path=db)
        results = []
        lock = threading.Lock()
        lrng = __import__("random").Random(rng.randrange(10 ** 9))
        codes = [f.__code__ for f in (parser.parse, getattr(parser, "_parse_cached", parser.parse), parser._check_database_structure)]
        if inject:
            def on_line(code, line):
                if lrng.random() < 0.2:
                    injected[0] += 1
                    time.sleep(0)
            mon.use_tool_id(tool, "vf-c02")
            mon.register_callback(tool, mon.events.LINE, on_line)
            for c in set(codes):
                mon.set_local_events(tool, c, mon.events.LINE)
        barrier = threading.Barrier(nthreads)

        def worker(i):
            hub.register(i)
            barrier.wait()
            for k in range(6):
                j = (i + k) % 4
                # every call is a cache miss (a distinct trailing comment does not change the tree), so that real
                # parses of valid and of broken texts overlap
                try:
                    t = parser.parse(texts[j] + "\n// thread %d call %d\n" % (i, k), model_cache_folder=Path(folder))
                    r = ("ok", (None if t is None else canon.digest(t)) == refs[j])
                except BaseException as e:
                    r = ("exc", type(e).__name__, str(e)[:200])
                with lock:
                    results.append(r)

        with sqlproxy.Installed(hub):
            ths = [threading.Thread(target=worker, args=(i,), daemon=True) for i in range(nthreads)]
            for t in ths:
                t.start()
            for t in ths:
                t.join(timeout=120)
        if any(t.is_alive() for t in ths):
            ctx.inconclusive("free-running threads did not finish")
            return
        label = "%d-threads:%s:%s" % (nthreads, state, "yield-injection" if inject else "plain")
        case = {"mode": "threads", "nthreads": nthreads, "state": state, "inject": inject}
        slow = any(e[3] >= 4.5 for e in hub.events)
        for r in results:
            ctx.monitor("calls_checked")
            if r[0] == "exc":
                if slow:
                    ctx.inconclusive("call failed after a statement waited >= 4.5 s (%s)" % r[2])
                else:
                    ctx.violation("C02:call-raises:%s:%s" % (r[1], msg_class(r[2])), "free-running %s: parse() raised %s: %s" % (label, r[1], r[2]), case)
            elif not r[1]:
                ctx.violation("C02:wrong-tree-returned", "free-running %s: a call returned a tree that differs from the uncached parse" % label, case)
        if hub.removed:
            ctx.violation("C02:database-removed-while-in-use", "free-running %s: the live cache database was removed" % label, case)
        ctx.monitor("thread_rounds_run")
        ctx.monitor("yields_injected", injected[0])
        ctx.cover("threads:%d" % nthreads)
        ctx.case({"threads": label, "round": idx, "seed": ctx.seed}, True, None)
        bad = check_db_after(ctx, db, None)
        if bad:
            ctx.violation("C02:" + bad[0], "%s (free-running %s)" % (bad[1], label), case)
    finally:
        if inject:
            try:
                for c in set(codes):
                    mon.set_local_events(tool, c, 0)
                mon.register_callback(tool, mon.events.LINE, None)
                mon.free_tool_id(tool)
            except Exception:
                pass
        pymoca.__version__ = saved_version
        if hasattr(parser.parse, "initialized_dbs"):
            parser.parse.initialized_dbs.discard(Path(folder) / "model_txt_cache.db")
        shutil.rmtree(folder, ignore_errors=True)


def threads(ctx, k):
    rng = ctx.rng
    rounds = 12 if ctx.quick() else 200
    nsh = max(1, ctx.nshards - ctx.controlled_shards)
    for r in range(rounds):
        if r % nsh != k or ctx.out_of_time():
            continue
        ctx.guarded(threads_round, ctx, rng, r, [4, 8][r % 2], ["absent", FOLDER_ABSENT, "existing-unchecked", FOLDER_ABSENT, "wrong-layout"][(r // 2) % 5], inject=(r % 4 >= 2), timeout=300)


def run_shard(ctx):
    logging.disable(logging.CRITICAL)
    import pymoca.parser  # noqa
    # 12 shards run controlled schedules, 4 run the process/thread stress (so that at most ~4*16 processes exist at once)
    ctx.controlled_shards = max(1, ctx.nshards - 4) if ctx.nshards > 4 else max(1, ctx.nshards - 1)
    if ctx.shard < ctx.controlled_shards:
        controlled(ctx)
    else:
        k = ctx.shard - ctx.controlled_shards
        stress(ctx, k)
        threads(ctx, k)
    if ctx.nshards == 1:
        stress(ctx, 0)
        threads(ctx, 0)


def replay(ctx, case):
    logging.disable(logging.CRITICAL)
    import pymoca.parser  # noqa
    ctx.controlled_shards = 1
    if case.get("mode") == "controlled":
        for k in range(5):
            run_schedule(ctx, ctx.rng, 900000 + k, case["state"], case["nworkers"], case["same_text"], case["word"], case.get("label", "replay"), case.get("variant"))
    elif case.get("mode") == "stress":
        for k in range(5):
            stress_round(ctx, ctx.rng, 900000 + k, case["nproc"], case["state"], case["delay"], case["same_text"])
    else:
        for k in range(5):
            threads_round(ctx, ctx.rng, 900000 + k, case["nthreads"], case["state"], case["inject"])
