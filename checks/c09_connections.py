"""C09 - connections produce exactly the Modelica connection-set equations.

Reference-model monitor on tree.flatten for models whose only equations come from connect clauses:
the flat equations are linear and homogeneous in the connector variables; their coefficient rows are
extracted by evaluating lhs-rhs at unit vectors and compared with the reference connection-set system
by exact rank computations over fractions: rank(A) = rank(B) = rank([A;B])."""
import itertools
import logging
from fractions import Fraction

import numpy as np

from vf import adapters, mexpr
from vf.worker import exc_sig

LEVEL = "exploration"
RULE = ("generated connection graphs (chains, stars, cycles, repeated and reversed clauses, merges of existing sets) "
        "over 2-8 components with 1-3 connectors, connector classes with 1-3 potential and 1-3 flow variables and a "
        "parameter member, top-level (outside) connectors and one level of sub-models connected inside; for graphs "
        "with <=4 clauses every permutation of the clause list; distinct = digest of model text; non-trivial = >=2 "
        "connect clauses touching a common connection set or an outside connector")
ASSUMPTIONS = ["connector variables are scalar Reals; arrays of connectors are outside the quantifier",
               "every connector of a sub-model that is connected inside the sub-model is also connected from outside, "
               "so 'flow variable in no connection' is unambiguous"]
REQUIRED_MONITORS = ["models_compared", "connection_sets_checked"]
BUDGET = {"quick": 45, "thorough": 700}


def rank(rows):
    rows = [list(r) for r in rows if any(x != 0 for x in r)]
    rk = 0
    ncol = len(rows[0]) if rows else 0
    for col in range(ncol):
        piv = next((i for i in range(rk, len(rows)) if rows[i][col] != 0), None)
        if piv is None:
            continue
        rows[rk], rows[piv] = rows[piv], rows[rk]
        pv = rows[rk][col]
        rows[rk] = [x / pv for x in rows[rk]]
        for i in range(len(rows)):
            if i != rk and rows[i][col] != 0:
                f = rows[i][col]
                rows[i] = [a - f * b for a, b in zip(rows[i], rows[rk])]
        rk += 1
        if rk == len(rows):
            break
    return rk


class UF:
    def __init__(self):
        self.p = {}

    def find(self, x):
        self.p.setdefault(x, x)
        while self.p[x] != x:
            self.p[x] = self.p[self.p[x]]
            x = self.p[x]
        return x

    def union(self, a, b):
        self.p[self.find(a)] = self.find(b)


def gen_case(rng):
    tags = set()
    npot, nflow = rng.randint(1, 3), rng.randint(1, 3)
    pots = ["v%d" % i for i in range(npot)]
    flows = ["f%d" % i for i in range(nflow)]
    with_param = rng.random() < 0.4
    ktext = "connector K\n" + "".join("  Real %s;\n" % p for p in pots) + "".join("  flow Real %s;\n" % f for f in flows)
    if with_param:
        ktext += "  parameter Real k = 1;\n"
        tags.add("connector-with-parameter-member")
    ktext += "end K;\n\n"
    # leaf component class
    ncon = rng.randint(1, 3)
    # some naming schemes put connector names into a proper string-prefix relation (p / p2, port / port_b, c / c0)
    lcons = rng.choice([["p", "n", "q"], ["p", "p2", "pn"], ["t1", "t", "t12"]])[:ncon]
    if lcons[0] != "p" or "p2" in lcons:
        tags.add("names:connector-name-is-prefix-of-another")
    ltext = "model L\n" + "".join("  K %s;\n" % c for c in lcons) + "end L;\n\n"
    # sub-model with inner connections
    use_sub = rng.random() < 0.45
    subtext = ""
    sub_outside_connected = []
    sub_clauses = []
    if use_sub:
        tags.add("sub-model-connected-inside")
        subcons = ["a", "b"][:rng.randint(1, 2)]
        ninner = rng.randint(1, 2)
        subtext = "model SubM\n" + "".join("  K %s;\n" % c for c in subcons) + "".join("  L l%d;\n" % i for i in range(ninner))
        inner_refs = ["l%d.%s" % (i, c) for i in range(ninner) for c in lcons]
        for oc in subcons:
            sub_clauses.append((oc, rng.choice(inner_refs)))
            sub_outside_connected.append(oc)
        for _ in range(rng.randint(0, 2)):
            if len(inner_refs) >= 2:
                sub_clauses.append(tuple(rng.sample(inner_refs, 2)))
        subtext += "equation\n" + "".join("  connect(%s, %s);\n" % c for c in sub_clauses) + "end SubM;\n\n"
    # top model
    ncomp = rng.randint(2, 6)
    comps = []
    for i in range(ncomp):
        if use_sub and rng.random() < 0.35:
            comps.append(("s%d" % i, "SubM"))
        else:
            comps.append(("c%d" % i, "L"))
    nports = rng.randint(0, 2)
    ports = rng.choice([["port0", "port1"], ["port", "port_b"], ["c", "s"]])[:nports]
    if ports and not ports[0].endswith("0"):
        tags.add("names:port-name-is-prefix-of-another-name")
    if ports:
        tags.add("outside-connector")
    refs = []
    must_connect = []
    for nm, ty in comps:
        if ty == "L":
            refs += ["%s.%s" % (nm, c) for c in lcons]
        else:
            sr = ["%s.%s" % (nm, c) for c in sub_outside_connected]
            refs += sr
            must_connect += sr
    allrefs = refs + ports
    clauses = []
    shape = rng.choice(["chain", "star", "cycle", "random", "random"])
    tags.add("graph:" + shape)
    k = rng.randint(2, min(6, max(2, len(allrefs))))
    pick = rng.sample(allrefs, min(k, len(allrefs)))
    if shape == "chain":
        clauses = list(zip(pick, pick[1:]))
    elif shape == "star":
        clauses = [(pick[0], x) for x in pick[1:]]
    elif shape == "cycle":
        clauses = list(zip(pick, pick[1:])) + ([(pick[-1], pick[0])] if len(pick) > 2 else [])
    else:
        for _ in range(rng.randint(1, 5)):
            if len(allrefs) >= 2:
                clauses.append(tuple(rng.sample(allrefs, 2)))
    if must_connect and rng.random() < 0.3:
        must_connect = []
        tags.add("sub-model-connector-possibly-unconnected-at-top")
    for m in must_connect:
        if not any(m in c for c in clauses):
            other = rng.choice([x for x in allrefs if x != m])
            clauses.append((m, other))
    if rng.random() < 0.25 and clauses:
        c = rng.choice(clauses)
        clauses.append((c[1], c[0]) if rng.random() < 0.5 else c)
        tags.add("redundant-or-reversed-clause")
    dom2 = None
    if rng.random() < 0.3:
        # a second domain: another connector class with the same simple name K (in a package) and other variables
        p2 = ["w%d" % i for i in range(rng.randint(1, 2))]
        f2 = ["g%d" % i for i in range(rng.randint(1, 3))]
        if len(p2) == len(pots) and len(f2) == len(flows):
            f2.append("g9")
        hs = ["h%d" % i for i in range(rng.randint(2, 3))]
        hrefs = ["%s.%s" % (h, c) for h in hs for c in ("p", "n")]
        hcl = [tuple(rng.sample(hrefs, 2)) for _ in range(rng.randint(1, 3))]
        dom2 = {"pots": p2, "flows": f2, "comps": hs}
        clauses += hcl
        ktext += ("package Dq\n  connector K\n" + "".join("    Real %s;\n" % x for x in p2) + "".join("    flow Real %s;\n" % x for x in f2) +
                  "  end K;\n  model H\n    K p;\n    K n;\n  end H;\nend Dq;\n\n")
        tags.add("two-connector-classes-with-the-same-simple-name")
    rng.shuffle(clauses)
    desc = {"dom2": dom2, "pots": pots, "flows": flows, "lcons": lcons, "comps": comps, "ports": ports, "clauses": clauses,
            "sub_clauses": sub_clauses, "use_sub": use_sub, "sub_inner": ninner if use_sub else 0,
            "subcons": subcons if use_sub else []}
    header = ktext + ltext + subtext
    return header, desc, tags


def top_text(desc, clauses):
    s = "model M\n" + "".join("  K %s;\n" % p for p in desc["ports"]) + "".join("  %s %s;\n" % (ty, nm) for nm, ty in desc["comps"])
    if desc.get("dom2"):
        s += "".join("  Dq.H %s;\n" % h for h in desc["dom2"]["comps"])
    s += "equation\n" + "".join("  connect(%s, %s);\n" % c for c in clauses) + "end M;\n"
    return s


def reference(desc, clauses):
    """-> (variable list, rows) of the Modelica connection-set system."""
    pots, flows = desc["pots"], desc["flows"]
    connectors = list(desc["ports"])
    for nm, ty in desc["comps"]:
        if ty == "L":
            connectors += ["%s.%s" % (nm, c) for c in desc["lcons"]]
        else:
            connectors += ["%s.%s" % (nm, c) for c in desc["subcons"]]
            connectors += ["%s.l%d.%s" % (nm, i, c) for i in range(desc["sub_inner"]) for c in desc["lcons"]]
    cls = {c: (pots, flows) for c in connectors}
    if desc.get("dom2"):
        d2 = desc["dom2"]
        for h in d2["comps"]:
            for c in ("p", "n"):
                connectors.append("%s.%s" % (h, c))
                cls["%s.%s" % (h, c)] = (d2["pots"], d2["flows"])
    variables = [c + "." + v for c in connectors for v in cls[c][0] + cls[c][1]]
    col = {v: i for i, v in enumerate(variables)}
    uf = UF()
    touched = set()      # connection elements (connector, inside?) that are in some connect clause
    # top level: a reference with a dot is a connector of a component (inside), a port is outside
    for a, b in clauses:
        ea, eb = (a, "." in a), (b, "." in b)
        uf.union(ea, eb)
        touched |= {ea, eb}
    # inside each SubM instance
    for nm, ty in desc["comps"]:
        if ty != "SubM":
            continue
        for a, b in desc["sub_clauses"]:
            ea, eb = ("%s.%s" % (nm, a), "." in a), ("%s.%s" % (nm, b), "." in b)
            uf.union(ea, eb)
            touched |= {ea, eb}
    sets = {}
    for e in list(uf.p):
        sets.setdefault(uf.find(e), []).append(e)
    rows = []
    for members in sets.values():
        members = sorted(set(members))
        pots, flows = cls[members[0][0]]
        for v in pots:
            for m in members[1:]:
                r = [Fraction(0)] * len(variables)
                r[col[members[0][0] + "." + v]] += 1
                r[col[m[0] + "." + v]] -= 1
                rows.append(r)
        for f in flows:
            r = [Fraction(0)] * len(variables)
            for (c, inside) in members:
                r[col[c + "." + f]] += 1 if inside else -1
            rows.append(r)
    # a connector of a component is an inside connector of the class that declares the component; when it is in no
    # connect clause there (even if it is connected, as an outside connector, inside its own component) its flow
    # variables are zero.  The ports of the top-level model only exist as outside connectors.
    for c in connectors:
        element = (c, c not in desc["ports"])
        if element not in touched:
            for f in cls[c][1]:
                r = [Fraction(0)] * len(variables)
                r[col[c + "." + f]] = Fraction(1)
                rows.append(r)
    return variables, rows, len(sets)


def pymoca_rows(fc, variables):
    """coefficient rows of pymoca's flat equations (must be linear homogeneous)."""
    zero = {v: 0.0 for v in variables}
    rows = []
    for e in fc.equations:
        l, r = adapters.to_mexpr(e.left), adapters.to_mexpr(e.right)
        f0 = float(np.asarray(mexpr.evaluate(l, zero), float) - np.asarray(mexpr.evaluate(r, zero), float))
        if abs(f0) > 1e-12:
            raise ValueError("equation is not homogeneous: %r = %r" % (e.left, e.right))
        row = []
        for v in variables:
            env = dict(zero)
            env[v] = 1.0
            val = float(np.asarray(mexpr.evaluate(l, env), float) - np.asarray(mexpr.evaluate(r, env), float))
            row.append(Fraction(val).limit_denominator(64))
        # linearity probe
        env = {v: float(i + 2) for i, v in enumerate(variables)}
        lin = sum(float(c) * env[v] for c, v in zip(row, variables))
        val = float(np.asarray(mexpr.evaluate(l, env), float) - np.asarray(mexpr.evaluate(r, env), float))
        if abs(lin - val) > 1e-9 * max(1, abs(val)):
            raise ValueError("equation is not linear: %r = %r" % (e.left, e.right))
        rows.append(row)
    return rows


def check(ctx, header, desc, clauses, tags):
    from pymoca import ast as past, parser, tree as ptree
    text = header + top_text(desc, clauses)
    case = {"header": header, "desc": desc, "clauses": clauses, "tags": sorted(tags), "text": text}
    variables, ref_rows, nsets = reference(desc, clauses)
    try:
        t = parser.parse(text, bypass_cache=True)
        if t is None:
            raise SyntaxError("generated model rejected by the parser")
        flat = ptree.flatten(t, past.ComponentRef(name="M"))
        fc = flat.classes["M"]
    except Exception as e:
        ctx.violation("C09:flatten-raises:%s" % exc_sig(e), "flatten raised %r\n%s" % (e, text), case)
        return
    flat_vars = [n for n, s in fc.symbols.items() if not (set(s.prefixes) & {"parameter", "constant"})]
    if sorted(flat_vars) != sorted(variables):
        ctx.violation("C09:flat-variable-set", "flat connector variables %s, expected %s\n%s" % (
            sorted(set(flat_vars) ^ set(variables))[:6], "", text), case)
        return
    try:
        got_rows = pymoca_rows(fc, variables)
    except (ValueError, KeyError, adapters.Unknown, mexpr.Undefined) as e:
        ctx.violation("C09:equation-form:%s" % type(e).__name__, "%s\n%s" % (e, text), case)
        return
    ctx.monitor("models_compared")
    ctx.monitor("connection_sets_checked", nsets)
    ra, rb, rab = rank(ref_rows), rank(got_rows), rank(ref_rows + got_rows)
    if not (ra == rb == rab):
        if rb < ra and rab == ra:
            kind = "solutions-gained"      # pymoca's system is weaker: some connection equation is missing
        elif rb > ra and rab == rb:
            kind = "solutions-lost"        # pymoca's system is stronger: an equation that should not be there
        else:
            kind = "different-solution-set"
        ctx.violation("C09:%s" % kind, "rank(reference)=%d rank(pymoca)=%d rank(both)=%d\n%s\nflat equations: %s" % (
            ra, rb, rab, text, ["%r = %r" % (e.left, e.right) for e in fc.equations][:12]), case)


def one(ctx, rng, k):
    header, desc, tags = gen_case(rng)
    clauses = desc["clauses"]
    nt = len(clauses) >= 2
    ctx.case({"h": header, "c": clauses, "d": desc["comps"], "p": desc["ports"]}, nt,
             {"model": header + top_text(desc, clauses)} if k < 1 else None)
    for t in tags:
        ctx.cover(t)
    check(ctx, header, desc, clauses, tags)
    if len(clauses) <= 4 and (ctx.tier == "thorough" or rng.random() < 0.25):
        for perm in itertools.permutations(clauses):
            if list(perm) == clauses:
                continue
            ctx.case({"h": header, "c": perm, "d": desc["comps"], "p": desc["ports"]}, nt, None)
            ctx.cover("clause-order-permutation")
            check(ctx, header, desc, list(perm), tags)


def run_shard(ctx):
    logging.disable(logging.CRITICAL)
    for k in range(ctx.n(1200, 80000)):
        if ctx.out_of_time():
            break
        ctx.guarded(one, ctx, ctx.rng, k, timeout=60)


def replay(ctx, case):
    logging.disable(logging.CRITICAL)
    d = case["desc"]
    d["comps"] = [tuple(x) for x in d["comps"]]
    d["sub_clauses"] = [tuple(x) for x in d["sub_clauses"]]
    check(ctx, case["header"], d, [tuple(c) for c in case["clauses"]], set(case["tags"]))
