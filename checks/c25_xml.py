"""C25 - ModelicaXML backend mirrors the flat model.

Monitor on backends.xml.generator.generate: the returned text is parsed with xml.etree (well-formed),
then walked in lock-step with the flat class obtained from tree.flatten on a fresh parse: one component
element per flat symbol (name, builtin type, variability, literal start/value), one equal element per
flat equation whose element tree matches the flat expression node for node."""
import logging
import xml.etree.ElementTree as ET

from vf import mexpr
from vf.genflat import num, var
from vf.worker import exc_sig

LEVEL = "exploration"
RULE = ("generated flat models with unary and n-ary operators, 1- to 4-argument function calls, Boolean literals as start/value, der, integer/real/"
        "string literals, sub-component (dotted) names, a user function whose formals are named like model variables, and variables of each variability with literal start/value "
        "attributes; distinct = digest of model text; non-trivial = >=2 equations containing both a unary/1-argument "
        "and an n-ary node")
ASSUMPTIONS = ["the flat model is what tree.flatten returns for a fresh parse of the same text",
               "ModelicaXML schema validation is out of reach offline (schema submodule absent) and not part of the property"]
REQUIRED_MONITORS = ["documents_parsed", "components_compared", "expression_nodes_compared"]
BUDGET = {"quick": 45, "thorough": 600}


# literals that need 16 or 17 significant digits to survive a round trip
LONG_LITERALS = [3.141592653589793, 0.30000000000000004, 1.0000000000000002, 2.718281828459045, 6.123233995736766e-17, 123456.78901234567]


def gen_case(rng):
    tags = set()
    decls, names = [], []
    info = {}
    ext = None
    k = rng.random()
    if k < 0.08:
        ext = "ext:signed-literal-attribute"
    for i in range(rng.randint(2, 5)):
        n = "%s%d" % (rng.choice("xyzuw"), i)
        var_ = rng.choice(["", "", "parameter", "constant", "discrete"])
        typ = rng.choice(["Real", "Real", "Real", "Integer"])
        mods, val = [], ""
        start = None
        if rng.random() < 0.4:
            start = rng.randint(0, 9) if typ == "Integer" else round(rng.uniform(0, 9), 2)
            if typ == "Real" and rng.random() < 0.25:
                start = rng.choice(LONG_LITERALS)
                tags.add("literal:17-significant-digits")
            mods.append("start = %s" % start)
            tags.add("attr:start")
        if rng.random() < 0.15:
            mods.append("fixed = true")
            tags.add("attr:fixed")
        value = None
        if var_ in ("parameter", "constant"):
            value = rng.randint(1, 9) if typ == "Integer" else round(rng.uniform(0.5, 9), 2)
            if typ == "Real" and rng.random() < 0.25:
                value = rng.choice(LONG_LITERALS)
                tags.add("literal:17-significant-digits")
            val = " = %s" % value
        decls.append("  %s%s %s%s%s;" % (var_ + " " if var_ else "", typ, n, "(" + ", ".join(mods) + ")" if mods else "", val))
        names.append(n)
        info[n] = {"type": typ, "variability": var_ or None, "start": start, "value": value}
        tags.add("variability:" + (var_ or "continuous"))
    # declaration equations of non-parameter variables (Real yb = 2 * x): they become flat equations
    nb = 0
    for nm in [n_ for n_ in names if info[n_]["type"] == "Real" and info[n_]["variability"] is None][:2]:
        if rng.random() < 0.35:
            bn = "yb%d" % nb
            nb += 1
            rhs_txt = "%s * %s" % (rng.randint(2, 9), nm) if rng.random() < 0.6 else str(rng.randint(1, 9))
            decls.append("  Real %s = %s;" % (bn, rhs_txt))
            names.append(bn)
            info[bn] = {"type": "Real", "variability": None, "start": None, "value": None}
            tags.add("declaration-equation-of-a-variable")
    # Boolean variables and parameters, with both literal values
    for j in range(rng.randint(0, 2)):
        n = "b%d" % j
        var_ = rng.choice(["parameter", "discrete", "constant"])
        bv = rng.random() < 0.5
        lit_b = "true" if bv else "false"
        if var_ == "discrete":
            decls.append("  discrete Boolean %s(start = %s);" % (n, lit_b))
            info[n] = {"type": "Boolean", "variability": "discrete", "start": bv, "value": None}
        else:
            decls.append("  %s Boolean %s = %s;" % (var_, n, lit_b))
            info[n] = {"type": "Boolean", "variability": var_, "start": None, "value": bv}
        names.append(n)
        tags.add("boolean-literal:" + lit_b)
    if ext == "ext:signed-literal-attribute":
        decls.append("  Real sg(start = -1);")
        names.append("sg")
        info["sg"] = {"type": "Real", "variability": None, "start": -1, "value": None}
        tags.add(ext)
    if rng.random() < 0.2:
        sval = rng.choice(["abc", "a<b", "x&y", 'q"r', "tab\there"]) if rng.random() < 0.7 else "plain"
        sval = sval.replace('"', "'")
        decls.append('  parameter String s0 = "%s";' % sval)
        names.append("s0")
        info["s0"] = {"type": "String", "variability": "parameter", "start": None, "value": sval}
        tags.add("string-parameter")
    pre = ""
    if rng.random() < 0.3:
        pre = "model C\n  Real q(start = 2);\n  parameter Real k = 3;\nend C;\n\n"
        decls.append("  C c1;")
        names += ["c1.q", "c1.k"]
        info["c1.q"] = {"type": "Real", "variability": None, "start": 2, "value": None}
        info["c1.k"] = {"type": "Real", "variability": "parameter", "start": None, "value": 3}
        tags.add("sub-component")
    reals = [n for n in names if info[n]["type"] == "Real" and info[n]["variability"] in (None, "discrete")]
    leaves = [var(n) for n in names if info[n]["type"] in ("Real", "Integer")]
    g = mexpr.Gen(rng, leaves, [], funcs1=("sin", "cos", "exp", "abs"), funcs2=("min", "max"), allow_if=False,
                  arith=("+", "-", "*", "/", "^"))
    eqs = []
    for _ in range(rng.randint(1, 4)):
        if not reals:
            break
        tgt = var(rng.choice(reals))
        lhs = ("der", tgt) if rng.random() < 0.35 else tgt
        rhs = g.real(rng.randint(1, 3))
        if rng.random() < 0.15:
            rhs = ("bin", "+", rhs, num(rng.choice(LONG_LITERALS)))
            tags.add("literal:17-significant-digits")
        if rng.random() < 0.2 and len(leaves) >= 2:
            # function calls with three and four arguments
            a3 = [rng.choice(leaves), rng.choice(leaves), num(round(rng.uniform(0.5, 3), 1))]
            call = ("call", "delay", a3) if rng.random() < 0.6 else ("call", "smoothStep", a3 + [rng.choice(leaves)])
            rhs = ("bin", "+", call, rhs) if rng.random() < 0.5 else call
            tags.add("call:%d-arguments" % len(call[2]))
        eqs.append((lhs, rhs))
    plain = [n for n in names if "." not in n and info[n]["type"] in ("Real", "Integer")]
    if rng.random() < 0.2 and reals and len(plain) >= 2:
        # a user-defined function whose formal parameters / local variable carry names of model variables
        fa, fb = rng.sample(plain, 2)
        loc = rng.choice([n for n in plain if n not in (fa, fb)] or ["tloc"])
        pre += ("function fsat\n  input Real %s;\n  input Real %s = 1;\n  output Real yout;\nprotected\n  Real %s;\n"
                "algorithm\n  %s := %s * %s;\n  yout := %s + 1;\nend fsat;\n\n" % (fa, fb, loc, loc, fa, fb, loc))
        eqs.append((var(rng.choice(reals)), ("call", "fsat", [rng.choice(leaves), rng.choice(leaves)])))
        tags.add("user-function-with-formals-named-like-model-variables")
    for k_ in g.used:
        tags.add("op:" + k_)
    text = pre + "model M\n" + "\n".join(decls) + "\n" + ("equation\n" + "".join(
        "  %s = %s;\n" % (mexpr.to_text(l), mexpr.to_text(r)) for l, r in eqs) if eqs else "") + "end M;\n"
    unary = any(o in ("neg", "pos", "sin", "cos", "exp", "abs", "der") for l, r in eqs for o in mexpr.ops_in(r) + mexpr.ops_in(l))
    nary = any(o in ("+", "-", "*", "/", "^", "min", "max") for l, r in eqs for o in mexpr.ops_in(r))
    return text, info, tags, len(eqs) >= 2 and unary and nary


def match(ctx, el, node, path):
    """XML element vs flat AST node.  -> None or message"""
    from pymoca import ast as past
    ctx.monitor("expression_nodes_compared")
    if isinstance(node, past.Primary):
        if el.tag != "real" or el.get("value") != str(node.value):
            return "%s: <%s %s> for literal %r" % (path, el.tag, el.attrib, node.value)
        return None
    if isinstance(node, past.ComponentRef):
        if el.tag != "local" or el.get("name") != node.name:
            return "%s: <%s %s> for reference %s" % (path, el.tag, el.attrib, node.name)
        return None
    if isinstance(node, past.Symbol):
        if el.tag != "local" or el.get("name") != node.name:
            return "%s: <%s %s> for symbol %s" % (path, el.tag, el.attrib, node.name)
        return None
    if isinstance(node, past.Expression):
        op = node.operator.name if isinstance(node.operator, past.ComponentRef) else node.operator
        kids = list(el)
        if len(node.operands) == 1:
            if el.tag != "operator" or el.get("name") != op:
                return "%s: <%s %s> for unary %s" % (path, el.tag, el.attrib, op)
        else:
            if el.tag != "apply" or el.get("builtin") != op:
                return "%s: <%s %s> for %d-ary %s" % (path, el.tag, el.attrib, len(node.operands), op)
        if len(kids) != len(node.operands):
            return "%s: %d operand elements for %d operands of %s" % (path, len(kids), len(node.operands), op)
        for i, (k, o) in enumerate(zip(kids, node.operands)):
            bad = match(ctx, k, o, "%s/%s[%d]" % (path, op, i))
            if bad:
                return bad
        return None
    return "%s: flat node kind %s not in the XML backend's subset" % (path, type(node).__name__)


def check(ctx, text, info, tags):
    from pymoca import ast as past, parser, tree as ptree
    from pymoca.backends.xml import generator as xg
    exts = sorted(t for t in tags if t.startswith("ext:"))
    feat = exts[0] if exts else "core"
    case = {"text": text, "info": info, "tags": sorted(tags)}
    try:
        t1 = parser.parse(text, bypass_cache=True)
        if t1 is None:
            raise SyntaxError("generated model rejected")
        out = xg.generate(t1, "M")
    except Exception as e:
        ctx.violation("C25:%s:generate-raises:%s" % (feat, exc_sig(e)), "xml generate raised %r\n%s" % (e, text), case)
        return
    try:
        root = ET.fromstring(out)
    except ET.ParseError as e:
        ctx.violation("C25:%s:not-well-formed" % feat, "output is not well-formed XML: %s\n%s\n%s" % (e, text, out[:1500]), case)
        return
    ctx.monitor("documents_parsed")
    flat = ptree.flatten(parser.parse(text, bypass_cache=True), past.ComponentRef(name="M"))
    fc = flat.classes["M"]
    cds = [c for c in root.iter("classDefinition") if c.get("name") == "M"]
    if len(cds) != 1:
        ctx.violation("C25:%s:class-definition-count" % feat, "%d classDefinition elements for M\n%s" % (len(cds), text), case)
        return
    cls = cds[0].find("class")
    comps = cls.findall("component")
    names = [c.get("name") for c in comps]
    if names != list(fc.symbols.keys()):
        kind = "duplicated-or-extra" if len(names) > len(fc.symbols) else "missing" if len(names) < len(fc.symbols) else "order-or-name"
        ctx.violation("C25:%s:components:%s" % (feat, kind), "component elements %s, flat symbols %s\n%s" % (names, list(fc.symbols.keys()), text), case)
        return
    for c in comps:
        n = c.get("name")
        ctx.monitor("components_compared")
        sym = fc.symbols[n]
        b = c.find("builtin")
        if b is None or b.get("name") != sym.type.name or (n in info and b.get("name") != info[n]["type"]):
            ctx.violation("C25:%s:component-type" % feat, "%s: builtin %s, flat type %s\n%s" % (n, None if b is None else b.attrib, sym.type.name, text), case)
            return
        exp_var = info[n]["variability"] if n in info else None
        if c.get("variability") != exp_var:
            ctx.violation("C25:%s:component-variability:%s" % (feat, exp_var or "continuous"),
                          "%s: variability %r, declared %r\n%s" % (n, c.get("variability"), exp_var, text), case)
            return
        items = {it.get("name"): it for it in c.find("modifier").findall("item")} if c.find("modifier") is not None else {}
        for a in ("start", "value"):
            exp = info[n][a] if n in info else None
            it = items.get(a)
            if exp is None:
                if it is not None and a == "value":
                    ctx.violation("C25:%s:attribute-invented:%s" % (feat, a), "%s has a %s item but none is declared\n%s" % (n, a, text), case)
                    return
                continue
            r = None if it is None else it.find("real")
            if it is not None and r is None and isinstance(exp, (int, float)) and exp < 0:
                # a signed literal may be emitted as the unary expression it is parsed to
                o = it.find("operator")
                if o is not None and o.get("name") == "-" and o.find("real") is not None and o.find("real").get("value") == str(-exp):
                    continue
            if r is None or r.get("value") != str(exp):
                ctx.violation("C25:%s:attribute:%s" % (feat, a), "%s: %s item %s, declared %r\n%s" % (
                    n, a, None if r is None else r.attrib, exp, text), case)
                return
    eqel = cls.find("equation")
    equals = [] if eqel is None else list(eqel)
    if len(equals) != len(fc.equations):
        ctx.violation("C25:%s:equation-count" % feat, "%d equation elements, %d flat equations\n%s" % (len(equals), len(fc.equations), text), case)
        return
    for i, (el, q) in enumerate(zip(equals, fc.equations)):
        kids = list(el)
        if el.tag != "equal" or len(kids) != 2:
            ctx.violation("C25:%s:equation-element" % feat, "equation %d is <%s> with %d children\n%s" % (i, el.tag, len(kids), text), case)
            return
        for side, k, node in (("lhs", kids[0], q.left), ("rhs", kids[1], q.right)):
            bad = match(ctx, k, node, "eq%d.%s" % (i, side))
            if bad:
                ctx.violation("C25:%s:expression-tree" % feat, "%s\n%s" % (bad, text), case)
                return


def one(ctx, rng, k):
    text, info, tags, nt = gen_case(rng)
    ctx.case(text, nt, {"model": text} if k < 1 else None)
    for t in tags:
        ctx.cover(t)
    check(ctx, text, info, tags)


def run_shard(ctx):
    logging.disable(logging.CRITICAL)
    for k in range(ctx.n(5000, 50000)):
        if ctx.out_of_time():
            break
        ctx.guarded(one, ctx, ctx.rng, k, timeout=60)


def replay(ctx, case):
    logging.disable(logging.CRITICAL)
    check(ctx, case["text"], case["info"], set(case["tags"]))
