"""C05 - flattening never changes what later flattening produces.

History monitor with the fresh-parse result as the executable model: on ONE parsed tree a sequence
of flatten / casadi generate / sympy generate / xml generate requests is executed; every step's
result (canonical flat class, generated text, CasADi variable lists + equations, or the exception
type) must equal the same request on a fresh parse of the same text.  An icontract postcondition
on tree.flatten (tree digest unchanged) runs beside it as a diagnostic only."""
import glob
import itertools
import logging
import os

from vf import canon
from vf.worker import exc_sig

LEVEL = "exploration"
RULE = ("request sequences (flatten/casadi/sympy/xml x class) on one parsed tree over (a) every class of every "
        "test/models/*.mo that exists, (b) generated libraries with class-typed components, connectors, extends "
        "and type aliases, package libraries (constants, functions, imports) and feature libraries (equal short names in "
        "different packages, class redeclaration, extends chains, deep modifications), (c) compiler CLI invocations with several -m; quick: all ordered pairs per file incl. "
        "A=A plus random triples, thorough: random sequences of length 3-6; distinct = digest of (text, request "
        "sequence); non-trivial = sequence of >=2 requests where at least one request succeeds on a fresh parse")
ASSUMPTIONS = ["results are compared through a canonical projection that ignores parent links and import memoisation",
               "exception *types* are compared, not messages"]
REQUIRED_MONITORS = ["sequence_steps_compared", "fresh_references", "cli_invocations"]
BUDGET = {"quick": 55, "thorough": 700}

REPO = os.environ.get("VERIF_REPO", "/repo")


def class_names(tree, prefix=""):
    out = []
    for n, c in tree.classes.items():
        full = prefix + n
        if c.type not in ("package",):
            out.append(full)
        out.extend(class_names(c, full + "."))
    return out


def do_request(tree, kind, cls):
    """-> ('ok', digest-or-text) | ('exc', type name)"""
    from pymoca import ast as past
    try:
        if kind == "flatten":
            from pymoca import tree as ptree
            flat = ptree.flatten(tree, past.ComponentRef.from_string(cls))
            return ("ok", canon.digest(flat, follow_parent=False, skip=("__deepcopy__", "imports")))
        if kind == "casadi":
            from pymoca.backends.casadi import generator
            m = generator.generate(tree, cls, {})
            sig = [[v.symbol.name() for v in getattr(m, k)] for k in
                   ("states", "der_states", "alg_states", "inputs", "parameters", "constants")]
            sig.append([str(e) for e in m.equations])
            sig.append([str(e) for e in m.initial_equations])
            sig.append(list(m.outputs))
            sig.append([(v.symbol.name(), str(v.value), str(v.start)) for k in ("constants", "parameters", "states", "alg_states")
                        for v in getattr(m, k)])
            return ("ok", canon.digest(sig))
        if kind == "sympy":
            from pymoca.backends.sympy import generator as sg
            return ("ok", canon.digest(sg.generate(tree, cls)))
        if kind == "xml":
            from pymoca.backends.xml import generator as xg
            return ("ok", canon.digest(xg.generate(tree, cls)))
    except RecursionError:
        return ("exc", "RecursionError")
    except Exception as e:
        return ("exc", type(e).__name__)
    raise ValueError(kind)


class Lib:
    def __init__(self, label, texts):
        self.label, self.texts = label, texts
        self._ref = {}
        self.classes = None

    def parse(self):
        from pymoca import parser
        tree = None
        for t in self.texts:
            sub = parser.parse(t, bypass_cache=True)
            if sub is None:
                return None
            if tree is None:
                tree = sub
            else:
                tree.extend(sub)
        return tree

    def ref(self, ctx, kind, cls):
        key = (kind, cls)
        if key not in self._ref:
            t = self.parse()
            self._ref[key] = do_request(t, kind, cls)
            ctx.monitor("fresh_references")
        return self._ref[key]


def install_contract(ctx):
    """diagnostic only: count flatten calls that change their input tree."""
    try:
        import icontract
    except ImportError:
        return False
    from pymoca import tree as ptree
    if getattr(ptree, "_vf_contract", False):
        return True
    orig = ptree.flatten

    def snap(root):
        return canon.digest(root, skip=("__deepcopy__", "imports"))

    def input_unchanged(root, OLD):
        ctx.monitor("flatten_contract_evaluations")
        if canon.digest(root, skip=("__deepcopy__", "imports")) != OLD.d:
            ctx.monitor("flatten_calls_that_mutated_their_input")
        return True   # diagnostic: mutation that never changes a later result is legitimate
    wrapped = icontract.snapshot(snap, name="d")(icontract.ensure(input_unchanged)(orig))
    ptree.flatten = wrapped
    ptree._vf_contract = True
    return True


def run_sequence(ctx, lib, seq, what):
    tree = lib.parse()
    if tree is None:
        ctx.discard("library-does-not-parse")
        return
    anyok = False
    for step, (kind, cls) in enumerate(seq):
        exp = lib.ref(ctx, kind, cls)
        got = do_request(tree, kind, cls)
        ctx.monitor("sequence_steps_compared")
        ctx.cover("request:" + kind)
        ctx.cover("fresh-outcome:" + exp[0])
        anyok = anyok or exp[0] == "ok"
        if got != exp:
            earlier = seq[:step]
            same = (kind, cls) in earlier
            used = "repeat-of-same-request" if same else "after-other-requests"
            detail = "%s(%s) as step %d of %s gives %s, on a fresh parse %s" % (kind, cls, step + 1, seq, got, exp)
            key = "C05:%s:%s:%s->%s" % (kind, used, exp[0] if exp[0] == "ok" else exp[1], got[0] if got[0] == "ok" else got[1])
            ctx.violation(key, "%s [%s]" % (detail, lib.label),
                          {"what": what, "label": lib.label, "texts": lib.texts, "seq": [list(s) for s in seq]})
            return
    return anyok


def test_model_libs():
    libs = []
    for path in sorted(glob.glob(os.path.join(REPO, "test", "models", "*.mo"))):
        try:
            with open(path, encoding="utf-8") as f:
                libs.append(Lib(os.path.basename(path), [f.read()]))
        except OSError:
            pass
    return libs


def generated_libs(rng, count):
    try:
        from vf import mlib
    except ImportError:
        return
    for k in range(count):
        g = mlib.LibGen(rng, profile="flatten")
        lib = g.build()
        text = mlib.print_library(lib)
        L = Lib("generated-%d" % k, [text])
        L.classes = [c for c in mlib.flattenable_classes(lib)]
        L.tags = g.tags
        yield L


def package_libs(rng, count):
    """package libraries: package constants referenced by dotted and enclosing-scope names from
    functions and models, nested packages, qualified / renaming / unqualified imports."""
    for k in range(count):
        g, h, kq = round(rng.uniform(1, 20), 2), rng.randint(2, 9), rng.randint(2, 9)
        tags = set()
        parts = ["package P\n  constant Real g = %s;\n  constant Real h = %d;\n" % (g, h)]
        classes = []
        if rng.random() < 0.8:
            body = rng.choice(["m * P.g + h", "m * g", "P.g - m * P.h", "m + P.Q.k"])
            if rng.random() < 0.5:
                # a function that calls another function which the models do not call directly
                parts.append("  function twice\n    input Real a;\n    output Real b;\n  algorithm\n    b := 2 * a + h;\n  end twice;\n")
                body = "twice(%s)" % body
                tags.add("function-calling-another-function")
            parts.append("  function weight\n    input Real m;\n    output Real w;\n  algorithm\n    w := %s;\n  end weight;\n" % body)
            parts.append("  model Ball\n    parameter Real m = %d;\n    Real f;\n  equation\n    f = weight(m);\n  end Ball;\n" % rng.randint(1, 5))
            classes.append("P.Ball")
            tags.add("function-referencing-package-constant")
        parts.append("  model Drop\n    Real v(start = 0);\n  equation\n    der(v) = %s;\n  end Drop;\n" % rng.choice(["P.g", "g - h", "P.g * P.h", "P.Q.k + g"]))
        classes.append("P.Drop")
        parts.append("  package Q\n    constant Real k = %d;\n    model Inner\n      Real z;\n    equation\n      z = %s;\n    end Inner;\n  end Q;\n" % (
            kq, rng.choice(["P.g * k", "k + h", "P.Q.k * 2"])))
        classes.append("P.Q.Inner")
        if "P.Ball" in classes and rng.random() < 0.6:
            parts.append("  model User\n    Q.Inner i;\n    Ball b;\n    Real s;\n  equation\n    s = i.z + b.f + g;\n  end User;\n")
            classes.append("P.User")
        parts.append("end P;\n")
        if rng.random() < 0.5:
            parts.append("package A\n  model X\n    Real a;\n  equation\n    a = 1;\n  end X;\n"
                         "  package S\n    model X2\n      Real a2;\n    equation\n      a2 = 3;\n    end X2;\n  end S;\nend A;\n"
                         "package B\n  model Y\n    Real b;\n  equation\n    b = 2;\n  end Y;\nend B;\n")
            form = rng.choice(["two-unqualified", "qualified", "renaming", "one-unqualified"])
            if form == "two-unqualified":
                imp, cx, cy = "  import A.*;\n  import B.*;\n", "X", "Y"
            elif form == "qualified":
                imp, cx, cy = "  import A.X;\n  import B.Y;\n", "X", "Y"
            elif form == "renaming":
                imp, cx, cy = "  import XX = A.X;\n  import B.Y;\n", "XX", "Y"
            else:
                imp, cx, cy = "  import A.*;\n", "X", "B.Y"
            # a dotted name whose first component comes from an unqualified import (A.* brings S, the model is S.X2)
            dotted = "  S.X2 xs;\n" if "A.*" in imp and rng.random() < 0.6 else ""
            if dotted:
                tags.add("dotted-name-through-unqualified-import")
            imp_decl = imp
            imp = imp + dotted
            if rng.random() < 0.5:
                parts.append("model UsesImports\n%s  %s x;\n  %s y;\n  Real t;\nequation\n  t = x.a + y.b;\nend UsesImports;\n" % (imp, cx, cy))
                classes.append("UsesImports")
                tags.add("import-in-model:" + form)
            else:
                # the imports belong to an enclosing package of the flattened model
                more = ""
                if "A.*" in imp_decl and rng.random() < 0.6:
                    # dotted names whose head comes from the unqualified import but whose tail is not there: a class
                    # that does not exist anywhere (flatten fails, every time), and one that a top-level package of
                    # the same name as the imported one provides
                    more += "  model Typo\n    S.X9 q;\n  end Typo;\n"
                    classes.append("Pk.Typo")
                    if rng.random() < 0.6:
                        parts.append("package S\n  model X3\n    Real a3;\n  equation\n    a3 = 5;\n  end X3;\nend S;\n")
                        more += "  model Shadow\n    S.X3 q;\n  end Shadow;\n"
                        classes.append("Pk.Shadow")
                    tags.add("dotted-name-with-head-from-unqualified-import-and-tail-elsewhere")
                parts.append("package Pk\n%s  model M\n    %s x;\n    %s y;\n  %s    Real t;\n  equation\n    t = x.a + y.b;\n  end M;\n"
                             "  model N\n    %s x2;\n  end N;\n%send Pk;\n" % (imp_decl, cx, cy, dotted, cx, more))
                classes += ["Pk.M", "Pk.N"]
                tags.add("import-in-enclosing-package:" + form)
        L = Lib("package-library-%d" % k, ["".join(parts)])
        L.classes = classes
        L.tags = tags
        yield L


def feature_libs(rng, count):
    """libraries with constructs the reference flattener of mlib does not model (the oracle here is the fresh parse,
    so none is needed): equal short class names in different packages (a type derived from a builtin and a model
    with an extends clause), class redeclaration of a class that holds a modified sub-component, extends chains of
    length >= 2 reached both from the top level and from a nested component, deep dotted/nested modifications."""
    for k in range(count):
        parts, classes, tags = [], [], set()
        a, b, c, d = (rng.randint(2, 30) for _ in range(4))
        nm = rng.choice(["Level", "Gauge", "Flow"])
        picks = [x for x in ("clash", "redeclare", "chain", "deepmod") if rng.random() < 0.6] or ["clash", "redeclare"]
        if "clash" in picks:
            parts.append("package Units\n  type %s = Real(unit = \"m\", min = 0);\nend Units;\n" % nm)
            parts.append("package Sensors\n  partial model Sensor\n    Real signal;\n  end Sensor;\n  model %s\n    extends Sensor;\n"
                         "    Real h(nominal = %d);\n  equation\n    signal = %d * h;\n  end %s;\nend Sensors;\n" % (nm, a, b, nm))
            parts.append("model Tank\n  Units.%s l;\n  Real q;\nequation\n  der(l) = q;\nend Tank;\nmodel Plant\n  Tank t(l = %d, q = 1);\nend Plant;\n"
                         "model Probe\n  Sensors.%s s;\nend Probe;\nmodel Rig\n  Probe r(%s);\nend Rig;\n" % (
                             nm, c, nm, rng.choice(["s.h.start = %d" % d, "s(h(start = %d))" % d, "s.h(start = %d)" % d])))
            classes += ["Tank", "Plant", "Probe", "Rig", "Sensors." + nm]
            tags.add("same-short-name-for-builtin-type-and-model")
        if "redeclare" in picks:
            parts.append("model Element\n  parameter Real gain = 1;\n  Real u;\n  Real y;\nequation\n  y = gain * u;\nend Element;\n"
                         "model Idle\n  Real out;\nequation\n  out = 0;\nend Idle;\n"
                         "model Heater\n  Real out(start = %d);\n  Element e(gain = %d);\nequation\n  e.u = 1;\n  out = e.y;\nend Heater;\n"
                         "model Loop\n  replaceable model Source = Idle;\n  Source s;\nend Loop;\n"
                         "model System\n  Loop l(redeclare model Source = Heater);\nend System;\nmodel Lab\n  Heater h;\nend Lab;\n" % (a, b))
            classes += ["Element", "Heater", "Loop", "System", "Lab"]
            tags.add("class-redeclaration-of-class-with-modified-component")
        if "chain" in picks:
            parts.append("model G0\n  input Real u;\n  output Real y;\n  Real w(start = %d);\nequation\n  y = %d * u;\n  w = u;\nend G0;\n"
                         "model F0\n  extends G0;\nend F0;\nmodel E0\n  extends F0(w(start = %d));\n  Real z;\nequation\n  z = y;\nend E0;\n"
                         "model UsesNested\n  E0 a;\n  Real s;\nequation\n  s = a.y;\n  a.u = 1;\nend UsesNested;\n"
                         "model TopChain\n  extends F0;\n  E0 inner0;\nequation\n  inner0.u = u;\nend TopChain;\n" % (a, b, c))
            classes += ["G0", "F0", "E0", "UsesNested", "TopChain"]
            tags.add("extends-chain-at-top-level-and-nested")
        if "deepmod" in picks:
            parts.append("model A3\n  parameter Real p = %d;\n  Real x(start = 1);\nequation\n  der(x) = -p * x;\nend A3;\n"
                         "model B3\n  parameter Real p = %d;\n  A3 a;\nend B3;\n"
                         "model C3\n  parameter Real p = %d;\n  B3 b(%s);\nend C3;\nmodel D3\n  C3 c(p = %d);\n  B3 b2(a(p = 7));\nend D3;\n" % (
                             a, b, c, rng.choice(["a.x.start = 3 * p", "a(x(start = 3 * p))", "a.x(start = 3 * p)"]), d))
            classes += ["A3", "B3", "C3", "D3"]
            tags.add("deep-modification-with-name-in-several-scopes")
        L = Lib("feature-library-%d" % k, ["".join(parts)])
        L.classes = classes
        L.tags = tags
        yield L


def cli_check(ctx, lib, models, k):
    """main(-m A -m B) must count like main(-m A) + main(-m B) (no file-level errors here)."""
    import tools.compiler as comp
    d = os.path.join(ctx.work, "cli%d" % k)
    os.makedirs(d, exist_ok=True)
    path = os.path.join(d, "Lib.mo")
    with open(path, "w") as f:
        f.write(lib.texts[0])

    def run(ms, target):
        argv = [path]
        for m in ms:
            argv += ["-m", m]
        if target:
            argv += ["-t", target, "-o", d]
        try:
            return ("exit", comp.main(argv))
        except SystemExit as e:
            return ("sysexit", e.code)
        except Exception as e:
            return ("exc", type(e).__name__)
    for target in (None, "sympy"):
        single = [run([m], target) for m in models]
        together = run(models, target)
        ctx.monitor("cli_invocations", len(models) + 1)
        ctx.cover("cli:" + (target or "flatten-only"))
        if all(s[0] == "exit" for s in single):
            exp = ("exit", sum(s[1] for s in single))
            if together != exp:
                ctx.violation("C05:cli:%s:together-differs-from-alone" % (target or "flatten"),
                              "main(-m %s) -> %s but alone %s [%s]" % (" -m ".join(models), together, single, lib.label),
                              {"what": "cli", "label": lib.label, "texts": lib.texts, "models": models, "target": target})
        elif together[0] == "exit":
            ctx.violation("C05:cli:%s:alone-crashes-together-not" % (target or "flatten"),
                          "alone %s, together %s [%s]" % (single, together, lib.label),
                          {"what": "cli", "label": lib.label, "texts": lib.texts, "models": models, "target": target})
    import shutil
    shutil.rmtree(d, ignore_errors=True)


def cli_check_casadi(ctx, rng, k):
    """-t casadi: every -m is located through a file named after the model; a model without such a
    file must fail the same way alone and together with others, wherever it stands in the list."""
    import shutil
    import tools.compiler as comp
    d = os.path.join(ctx.work, "clic%d" % k)
    os.makedirs(d, exist_ok=True)
    files = {"A.mo": "model A\n  Real x;\nequation\n  der(x) = -x;\nend A;\n",
             "B.mo": "model B\n  Real y;\nequation\n  y = 2;\nend B;\n",
             "Extra.mo": "model Hidden\n  Real h;\nequation\n  h = 1;\nend Hidden;\n"}
    for n, t in files.items():
        with open(os.path.join(d, n), "w") as f:
            f.write(t)
    models = rng.sample(["A", "B", "Hidden", "Nowhere"], rng.randint(2, 3))

    def run(ms):
        argv = [d]
        for m in ms:
            argv += ["-m", m]
        argv += ["-t", "casadi"]
        try:
            return ("exit", comp.main(argv))
        except SystemExit as e:
            return ("sysexit", e.code)
        except Exception as e:
            return ("exc", type(e).__name__)
    try:
        single = [run([m]) for m in models]
        together = run(models)
        ctx.monitor("cli_invocations", len(models) + 1)
        ctx.cover("cli:casadi")
        if all(s_[0] == "exit" for s_ in single) and together != ("exit", sum(s_[1] for s_ in single)):
            ctx.violation("C05:cli:casadi:together-differs-from-alone",
                          "main(-t casadi -m %s) -> %s but alone %s" % (" -m ".join(models), together, single),
                          {"what": "cli-casadi", "models": models, "files": files, "label": "cli-casadi", "texts": list(files.values())})
    finally:
        shutil.rmtree(d, ignore_errors=True)


KINDS = ["flatten", "flatten", "casadi", "sympy", "xml"]


def run_shard(ctx):
    logging.getLogger("pymoca").setLevel(logging.CRITICAL)
    logging.disable(logging.CRITICAL)
    ctx.extra["icontract_diagnostic_installed"] = bool(install_contract(ctx))
    from pymoca import parser
    rng = ctx.rng
    libs = test_model_libs()
    work = []
    for li, lib in enumerate(libs):
        if li % ctx.nshards != ctx.shard:
            continue
        t = lib.parse()
        if t is None:
            continue
        lib.classes = class_names(t)
        work.append(lib)
    # (a) test models
    for lib in work:
        cl = lib.classes
        pairs = list(itertools.product(cl, cl)) if len(cl) <= 7 else [(rng.choice(cl), rng.choice(cl)) for _ in range(40)]
        for a, b in pairs:
            if ctx.out_of_time():
                break
            k1, k2 = ("flatten", "flatten") if rng.random() < 0.5 else (rng.choice(KINDS), rng.choice(KINDS))
            seq = [(k1, a), (k2, b)]
            if ctx.tier == "thorough" or rng.random() < 0.3:
                seq.append((rng.choice(KINDS), rng.choice(cl)))
            ok = ctx.guarded(run_sequence, ctx, lib, seq, "test-model", timeout=120)
            ctx.case({"l": lib.label, "s": seq}, bool(ok), {"library": lib.label, "sequence": seq} if not ctx.samples else None)
    # thorough: longer random sequences over the test models
    if ctx.tier == "thorough":
        for _ in range(400):
            if ctx.out_of_time() or not work:
                break
            lib = rng.choice(work)
            seq = [(rng.choice(KINDS), rng.choice(lib.classes)) for _ in range(rng.randint(3, 6))]
            ok = ctx.guarded(run_sequence, ctx, lib, seq, "test-model", timeout=180)
            ctx.case({"l": lib.label, "s": seq}, bool(ok), None)
    # (b) generated libraries
    n = ctx.n(300, 10000)
    for lib in generated_libs(ctx.subrng("gen"), n):
        if ctx.out_of_time():
            break
        cl = lib.classes
        if not cl:
            continue
        seq = [(rng.choice(KINDS), rng.choice(cl)) for _ in range(rng.randint(2, 6 if ctx.tier == "thorough" else 4))]
        ok = ctx.guarded(run_sequence, ctx, lib, seq, "generated", timeout=120)
        ctx.case({"t": lib.texts, "s": seq}, bool(ok), {"library": lib.texts[0][:1500], "sequence": seq} if len(ctx.samples) < 2 else None)
        for t in getattr(lib, "tags", ()):
            ctx.cover("gen:" + t)
        # (c) CLI on a fraction of them
        if rng.random() < 0.15 and len(cl) >= 2:
            ms = rng.sample(cl, 2) if rng.random() < 0.7 else [cl[0], cl[0]]
            ctx.guarded(cli_check, ctx, lib, ms, ctx.cases, timeout=120)
    # (b2) package libraries (constants, functions, imports)
    for lib in package_libs(ctx.subrng("pkg"), ctx.n(500, 6000)):
        if ctx.out_of_time():
            break
        cl = lib.classes
        seq = [(rng.choice(KINDS + ["casadi", "casadi"]), rng.choice(cl)) for _ in range(rng.randint(2, 6 if ctx.tier == "thorough" else 4))]
        ok = ctx.guarded(run_sequence, ctx, lib, seq, "package-library", timeout=120)
        ctx.case({"t": lib.texts, "s": seq}, bool(ok), None)
        for t in lib.tags:
            ctx.cover("pkg:" + t)
    # (b3) feature libraries (name clashes, redeclaration, extends chains, deep modifications)
    for lib in feature_libs(ctx.subrng("feat"), ctx.n(500, 6000)):
        if ctx.out_of_time():
            break
        cl = lib.classes
        seq = [(rng.choice(KINDS + ["casadi", "flatten"]), rng.choice(cl)) for _ in range(rng.randint(2, 6 if ctx.tier == "thorough" else 4))]
        ok = ctx.guarded(run_sequence, ctx, lib, seq, "feature-library", timeout=120)
        ctx.case({"t": lib.texts, "s": seq}, bool(ok), None)
        for t in lib.tags:
            ctx.cover("feat:" + t)
        if rng.random() < 0.15:
            ctx.guarded(cli_check, ctx, lib, rng.sample(cl, 2), ctx.cases, timeout=120)
    # (c) CLI on test models as well
    for lib in work[:6]:
        if ctx.out_of_time() or len(lib.classes) < 2:
            continue
        ms = rng.sample(lib.classes, 2)
        ctx.guarded(cli_check, ctx, lib, ms, ctx.cases, timeout=120)
    for k in range(3 if ctx.quick() else 40):
        if ctx.out_of_time():
            break
        ctx.guarded(cli_check_casadi, ctx, rng, k, timeout=300)
    ctx.extra["generated_libraries_available"] = _have_mlib()


def _have_mlib():
    try:
        from vf import mlib  # noqa: F401
        return True
    except ImportError:
        return False


def replay(ctx, case):
    logging.disable(logging.CRITICAL)
    lib = Lib(case["label"], case["texts"])
    if case["what"] == "cli-casadi":
        for k in range(10):
            cli_check_casadi(ctx, ctx.subrng("r", k), k)
        return
    if case["what"] == "cli":
        cli_check(ctx, lib, case["models"], 0)
    else:
        run_sequence(ctx, lib, [tuple(s) for s in case["seq"]], case["what"])
