"""C12 - representation-only options do not change the model's meaning.

Metamorphic monitor on generate()+simplify(): every generated model (>=1 for-loop, >=1 user-function
call, some with delay) is compiled under all 8 combinations of (unroll_loops, inline_functions,
expand_mx); the combination (True, True, False) is the reference.  Compared: names, order, python
types, shapes and attribute values of every variable list, outputs, delay_states, and the values of
the residual, initial-residual, metadata and delay-argument functions at 5 typed random points."""
import itertools
import logging

import numpy as np

from vf import adapters, genflat, mexpr, mflat
from vf.worker import exc_sig

LEVEL = "exploration"
RULE = ("mflat models with at least one for-equation and one user-function call (30% with delay()), each compiled "
        "under the 8 combinations of unroll_loops x inline_functions x expand_mx and compared with the combination "
        "(True, True, False) at 5 typed points; distinct = digest of model text; non-trivial = every model (all have a "
        "loop and a function call)")
ASSUMPTIONS = ["Boolean variables are sampled in {0,1} (MX short-circuit if_else and its SX expansion agree only there)",
               "function values are compared with rtol 1e-9; points where any variant returns a non-finite value are discarded"]
REQUIRED_MONITORS = ["option_combinations_compiled", "function_value_comparisons", "variable_list_comparisons", "second_stage_comparisons"]
BUDGET = {"quick": 50, "thorough": 700}
COMBOS = list(itertools.product([True, False], repeat=3))
LISTS = ("states", "der_states", "alg_states", "inputs", "parameters", "constants")
ATTRS = ("value", "start", "min", "max", "nominal", "fixed")


def compile_variant(text, opts):
    from checks.c11_residual import compile_model
    return compile_model(text, "M", opts)


def attr_value(model, val, pvec_env):
    import casadi as ca
    if isinstance(val, ca.MX):
        f = ca.Function("a", [v.symbol for v in model.parameters], [val])
        return np.array(f.call([ca.DM(np.asarray(pvec_env[v.symbol.name()], dtype=float)) for v in model.parameters])[0], dtype=float)
    try:
        return np.array(ca.DM(val), dtype=float)
    except Exception:
        return np.asarray(val, dtype=float)


def signature(model, env):
    sig = {}
    for k in LISTS:
        rows = []
        for v in getattr(model, k):
            row = [v.symbol.name(), v.python_type.__name__, (v.symbol.size1(), v.symbol.size2())]
            if k != "der_states":
                for a in ATTRS:
                    arr = np.round(attr_value(model, getattr(v, a), env), 12)
                    row.append([repr(float(x)) for x in np.asarray(arr, dtype=float).reshape(-1, order="F")])
            rows.append(row)
        sig[k] = rows
    sig["outputs"] = list(model.outputs)
    sig["delay_states"] = list(model.delay_states)
    sig["string_parameters"] = [p.name for p in model.string_parameters]
    return sig


def function_values(model, pt):
    out = {}
    args = adapters.model_args(model, pt)
    out["dae_residual"] = adapters.call_function(model.dae_residual_function, args)
    out["initial_residual"] = adapters.call_function(model.initial_residual_function, args)
    out["delay_arguments"] = adapters.call_function(model.delay_arguments_function, args)
    import casadi as ca
    pv = []
    for v in model.parameters:
        pv.extend(np.asarray(pt[v.symbol.name()], dtype=float).reshape(-1, order="F").tolist())
    out["variable_metadata"] = [np.array(r, dtype=float) for r in model.variable_metadata_function.call([ca.DM(pv)])]
    return out


def same_arrays(a, b):
    if len(a) != len(b):
        return False
    for x, y in zip(a, b):
        x, y = np.asarray(x, float), np.asarray(y, float)
        if x.shape != y.shape:
            if x.size != y.size:
                return False
            x, y = x.reshape(-1, order="F"), y.reshape(-1, order="F")
        fin = np.isfinite(x) & np.isfinite(y)
        if not np.array_equal(np.isnan(x), np.isnan(y)):
            return False
        inf = np.isinf(x) | np.isinf(y)
        if np.any(inf) and not np.array_equal(x[inf], y[inf]):
            return False
        if not np.all(np.abs(x[fin] - y[fin]) <= 1e-9 * np.maximum(1.0, np.maximum(np.abs(x[fin]), np.abs(y[fin])))):
            return False
    return True


def check(ctx, m, gen, rng, tags):
    text = mflat.print_model(m)
    case = {"text": text, "model": m, "tags": sorted(tags)}
    variants = {}
    for (ul, inl, ex) in COMBOS:
        opts = dict(getattr(gen, "background", {}), unroll_loops=ul, inline_functions=inl, expand_mx=ex)
        try:
            variants[(ul, inl, ex)] = compile_variant(text, opts)
            ctx.monitor("option_combinations_compiled")
        except Exception as e:
            if (ul, inl, ex) == (True, True, False):
                ctx.discard("reference-combination-does-not-compile:" + type(e).__name__)
                return
            ctx.violation("C12:compile-raises:%s:%s" % (label((ul, inl, ex)), exc_sig(e)),
                          "options %s: generation raised %r although (unroll, inline, no expand) compiles\n%s" % (opts, e, text),
                          dict(case, combo=[ul, inl, ex]))
            return
    ref = variants[(True, True, False)]
    pts = []
    funcs = mflat.functions_of(m)
    funcs["delay"] = lambda ev, args: args[0]
    for _ in range(20):
        if len(pts) >= 5:
            break
        env = gen.point(rng)
        # conditioning guard: the reference evaluator refuses ill-conditioned points (negative base with a
        # fractional exponent, near-zero divisors, relation ties ...) where algebraically equivalent
        # representations may legitimately differ (sqrt(a)*sqrt(a) vs a)
        try:
            for initial in (False, True):
                ev = mexpr.Evaluator(dict(env), "casadi", funcs)
                for q in (m["ieqs"] if initial else m["eqs"]):
                    mflat.eq_residual(ev, q)
        except mexpr.Undefined as u:
            ctx.discard("point:" + str(u)[:30])
            continue
        except (IndexError, KeyError, TypeError, ValueError):
            ctx.discard("point:reference-error")
            continue
        pts.append(env)
    if not pts:
        ctx.discard("case:no-well-conditioned-point")
        return
    if not compare(ctx, variants, pts, text, case, ""):
        return
    # second stage: the same further simplify() call on every variant (functions were read above, so anything
    # remembered from the first reading is now out of date); the variants must still agree afterwards
    if getattr(gen, "background", {}).get("expand_vectors"):
        return          # a second simplify() of an expanded model raises AttributeError today, for every variant alike
    stage2 = rng.choice(STAGE2)
    # the later call either repeats the representation options or names only what it wants done now
    repeat = rng.random() < 0.5
    ctx.cover("second-stage:" + ("repeats-the-representation-options" if repeat else "names-only-its-own-options"))
    for combo, model in variants.items():
        opts = {"unroll_loops": combo[0], "inline_functions": combo[1], "expand_mx": combo[2]} if repeat else {}
        try:
            model.simplify(dict(opts, **stage2))
        except Exception as e:
            if combo == (True, True, False):
                ctx.discard("second-stage-reference-raises:" + type(e).__name__)
                return
            ctx.violation("C12:second-stage-raises:%s:%s" % (label(combo), exc_sig(e)),
                          "options %s: a second simplify(%s) raised %r although it works for (unroll, inline, no expand)\n%s" % (label(combo), stage2, e, text),
                          dict(case, combo=list(combo), stage2=stage2))
            return
    ctx.monitor("second_stage_comparisons")
    ctx.cover("second-stage:" + "+".join(sorted(stage2)))
    compare(ctx, variants, pts, text, dict(case, stage2=stage2), ":after-second-simplify")


# only substitutions of parameter/constant symbols: their effect does not depend on the syntactic form of the
# equations.  Pattern-based stages (detect_aliases, eliminate_constant_assignments) legitimately find more in an
# inlined equation than in an opaque function call, so they are not used here.
STAGE2 = [{"replace_constant_values": True}, {"replace_constant_values": True, "resolve_parameter_values": True},
          {"replace_parameter_values": True, "replace_constant_values": True},
          {"replace_parameter_expressions": True, "replace_constant_expressions": True}]


def compare(ctx, variants, envs, text, case, stage):
    """-> True when every variant agrees with the reference combination."""
    ref = variants[(True, True, False)]
    try:
        pts = [adapters.complete_point(ref, env) for env in envs]
    except Exception as e:
        ctx.discard("reference-point-completion-raises:" + type(e).__name__)
        return False
    ref_sig = signature(ref, pts[0])
    try:
        ref_vals = [function_values(ref, pt) for pt in pts]
    except Exception as e:
        ctx.discard("reference-evaluation-raises:" + type(e).__name__)
        return False
    for combo, model in variants.items():
        if combo == (True, True, False):
            continue
        ctx.monitor("variable_list_comparisons")
        try:
            sig = signature(model, pts[0])
        except Exception as e:
            ctx.violation("C12:signature-unreadable:%s" % (label(combo) + stage), "%r\n%s" % (e, text), dict(case, combo=list(combo)))
            return False
        for k in ref_sig:
            if sig[k] != ref_sig[k]:
                ctx.violation("C12:variables-differ:%s:%s" % ((label(combo) + stage), k),
                              "options %s change %s: %s vs %s\n%s" % ((label(combo) + stage), k, sig[k], ref_sig[k], text), dict(case, combo=list(combo)))
                return False
        for pt, rv in zip(pts, ref_vals):
            try:
                vals = function_values(model, pt)
            except Exception as e:
                ctx.violation("C12:function-raises:%s:%s" % ((label(combo) + stage), type(e).__name__),
                              "options %s: evaluating the model functions raised %r\n%s" % ((label(combo) + stage), e, text), dict(case, combo=list(combo)))
                return False
            for fn in ("dae_residual", "initial_residual", "variable_metadata", "delay_arguments"):
                if any(not np.all(np.isfinite(np.asarray(x, float)) | np.isnan(np.asarray(x, float)) | np.isinf(np.asarray(x, float))) for x in rv[fn]):
                    continue
                if fn in ("dae_residual", "initial_residual") and any(not np.all(np.isfinite(np.asarray(x, float))) for x in rv[fn]):
                    ctx.discard("point:reference-residual-non-finite")
                    continue
                ctx.monitor("function_value_comparisons")
                if not same_arrays(vals[fn], rv[fn]):
                    ctx.violation("C12:function-differs:%s:%s" % ((label(combo) + stage), fn),
                                  "options %s change %s: %s vs %s\n%s" % ((label(combo) + stage), fn, [np.asarray(x).tolist() for x in vals[fn]],
                                                                            [np.asarray(x).tolist() for x in rv[fn]], text),
                                  dict(case, combo=list(combo)))
                    return False
    return True


def label(c):
    return "%s-%s-%s" % ("unroll" if c[0] else "map", "inline" if c[1] else "call", "expand" if c[2] else "mx")


def one(ctx, rng, k):
    g = genflat.FlatGen(rng, None)
    req = ["for", "func"] + (["delay"] if rng.random() < 0.3 else []) + (["trivial"] if rng.random() < 0.25 else [])
    m = g.build(n_eq=rng.randint(1, 4), require=req)
    # background options, the same for all eight variants
    g.background = {"expand_vectors": True} if rng.random() < 0.4 else {}
    for o in g.background:
        ctx.cover("background:" + o)
    text = mflat.print_model(m)
    ctx.case(text, True, {"model": text} if k < 1 else None)
    for t in g.tags:
        ctx.cover(t)
    check(ctx, m, g, rng, g.tags)


def run_shard(ctx):
    logging.getLogger("pymoca").setLevel(logging.ERROR)
    for k in range(ctx.n(300, 10000)):
        if ctx.out_of_time():
            break
        ctx.guarded(one, ctx, ctx.rng, k, timeout=120)


def replay(ctx, case):
    logging.getLogger("pymoca").setLevel(logging.ERROR)
    from checks.c11_residual import _remodel
    m = _remodel(case["model"])
    g = genflat.FlatGen(ctx.rng)
    g.m = m
    check(ctx, m, g, ctx.rng, set(case["tags"]))
