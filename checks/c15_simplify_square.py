"""C15 - simplification keeps regular systems square and self-contained.

Same generated square nonsingular models and option subsets as C14 (vf.gensolv); the monitor here is
the structural one: (number of unknowns - number of equations) is the same before and after
Model.simplify, and the four model functions can be constructed afterwards (CasADi refuses free
variables at construction, so an expression still referring to an eliminated variable is observable)."""
import logging

from vf import gensolv
from checks import c14_simplify_solutions as c14

LEVEL = "exploration"
RULE = ("vf.gensolv square nonsingular models x option subsets from a pairwise covering design over the 12 "
        "simplification options; distinct = digest of (model text, options); non-trivial = >=1 decoration and >=2 "
        "options on")
ASSUMPTIONS = ["an exception or warning from simplify itself is a reported failure (C14's contract), not a C15 violation",
               "unknowns = elements of states + alg_states, equations = elements of the dae residual"]
REQUIRED_MONITORS = ["simplify_runs", "balance_checks"]
BUDGET = {"quick": 50, "thorough": 800}


def run_shard(ctx):
    logging.getLogger("pymoca").setLevel(logging.ERROR)
    for k in range(ctx.n(4000, 40000)):
        if ctx.out_of_time():
            break
        ctx.guarded(c14.one, ctx, ctx.rng, k, "C15", timeout=120)


def replay(ctx, case):
    logging.getLogger("pymoca").setLevel(logging.ERROR)

    class G:
        pass
    g = G()
    g.val, g.tags = case["values"], set(case["tags"])
    c14.monitor(ctx, g, case["text"], case["options"], prop="C15")
