"""C23 - out-of-range array subscripts are rejected, never reinterpreted.

Exhaustive window: arrays of every small shape, every constant subscript and slice bound in a
window around the valid range, in several syntactic contexts.  In range -> generation must succeed
and the residual must select exactly the reference elements (value test); out of range -> generation
(or construction of the residual function) must raise."""
import itertools
import logging

import numpy as np

from vf import adapters, mexpr, mflat
from vf.genflat import idx, num, var
from vf.worker import exc_sig

LEVEL = "exploration"
RULE = ("complete enumeration of the window: 1-D arrays n=1..4 and 2-D arrays up to 3x3, every subscript in "
        "-2..n+2, every slice a:b and a:s:b (s in 1,2,-1,-2) with bounds in -2..n+3, loop ranges and index "
        "arithmetic (1-D, and either subscript of a matrix), subscripts on scalars, in 12 contexts; thorough adds component arrays and expression "
        "subscripts; distinct = digest of model text; non-trivial = every case (each is a distinct subscript/"
        "context combination)")
ASSUMPTIONS = ["an empty Modelica range (a > b) is legitimately empty, not out of range",
               "any exception type counts as rejection"]
REQUIRED_MONITORS = ["out_of_range_cases", "in_range_value_checks"]
EXHAUSTIVE = True
BUDGET = {"quick": 60, "thorough": 600}


def rng_elems(a, s, b):
    if s > 0:
        return list(range(a, b + 1, s))
    return list(range(a, b - 1, s))


def base_vars(n, shape2=None):
    vs = [{"name": "y", "type": "Real", "prefixes": [], "dims": [], "attrs": {}, "value": None},
          {"name": "s", "type": "Real", "prefixes": [], "dims": [], "attrs": {}, "value": None}]
    if shape2 is None:
        vs.append({"name": "x", "type": "Real", "prefixes": [], "dims": [n], "attrs": {}, "value": None})
    else:
        vs.append({"name": "A", "type": "Real", "prefixes": [], "dims": list(shape2), "attrs": {}, "value": None})
    return vs


def vdecl(name, dims):
    return {"name": name, "type": "Real", "prefixes": [], "dims": list(dims), "attrs": {}, "value": None}


def cases_1d():
    """yield (descr, model, expect) ; expect in 'ok' | 'reject' | 'either'"""
    for n in range(1, 5):
        # single subscripts
        for k in range(-2, n + 3):
            inr = 1 <= k <= n
            ke = num(k) if k >= 0 else ("neg", num(-k))
            for ctx_name in ("rhs", "lhs", "call-arg", "der", "for-body", "initial", "if-branch", "sum-elem"):
                m = {"name": "M", "vars": base_vars(n), "eqs": [], "ieqs": [], "funcs": []}
                ref = idx("x", ke)
                if ctx_name == "rhs":
                    m["eqs"].append(("eq", var("y"), ("bin", "*", num(2), ref)))
                elif ctx_name == "lhs":
                    m["eqs"].append(("eq", ref, ("bin", "+", var("y"), num(1))))
                elif ctx_name == "call-arg":
                    m["eqs"].append(("eq", var("y"), ("call", "sin", [ref])))
                elif ctx_name == "der":
                    m["eqs"].append(("eq", ("der", ref), var("y")))
                elif ctx_name == "for-body":
                    m["vars"].append(vdecl("w", [2]))
                    m["eqs"].append(("for", "i", num(1), None, num(2),
                                     [("eq", idx("w", var("i")), ("bin", "*", ref, var("i")))]))
                elif ctx_name == "initial":
                    m["ieqs"].append(("eq", ref, num(1.5)))
                    m["eqs"].append(("eq", var("y"), var("s")))
                elif ctx_name == "if-branch":
                    m["eqs"].append(("eq", var("y"), ("if", [(("bin", ">", var("s"), num(0)), ref)], num(1))))
                elif ctx_name == "sum-elem":
                    m["eqs"].append(("eq", var("y"), ("bin", "+", ref, ("call", "sum", [var("x")]))))
                yield ({"n": n, "k": k, "ctx": ctx_name, "kind": "index"}, m, "ok" if inr else "reject",
                       "index:" + ("in-range" if inr else "below-1" if k < 1 else "above-n"))
        # slices
        for a in range(-2, n + 4):
            for b in range(-2, n + 4):
                for s in (None, 1, 2, -1, -2):
                    el = rng_elems(a, s or 1, b)
                    if not el:
                        expect, cls = "either", "empty-range"
                    elif all(1 <= e <= n for e in el):
                        # downward ranges (negative step): generation may refuse them (today it does), but when it
                        # accepts one the elements must be Modelica's
                        expect, cls = ("ok" if (s or 1) > 0 else "ok-or-refused"), "in-range"
                    else:
                        expect = "reject"
                        cls = "lower-below-1" if min(el) < 1 else "upper-above-n"
                    ae = num(a) if a >= 0 else ("neg", num(-a))
                    be = num(b) if b >= 0 else ("neg", num(-b))
                    se = None if s is None else num(s) if s > 0 else ("neg", num(-s))
                    sl = ("idx", "x", [("slice", ae, se, be)])
                    for ctx_name in ("sum-slice", "array-eq", "array-eq-lhs"):
                        if s == 1 and ctx_name != "sum-slice":
                            continue
                        m = {"name": "M", "vars": base_vars(n), "eqs": [], "ieqs": [], "funcs": []}
                        if ctx_name == "sum-slice":
                            m["eqs"].append(("eq", var("y"), ("call", "sum", [sl])))
                        else:
                            L = len(el)
                            if L == 0:
                                continue
                            m["vars"].append(vdecl("z", [L]))
                            if ctx_name == "array-eq":
                                m["eqs"].append(("eq", var("z"), sl))
                            else:
                                m["eqs"].append(("eq", sl, ("bin", "*", num(2), var("z"))))
                        yield ({"n": n, "a": a, "s": s, "b": b, "ctx": ctx_name, "kind": "slice"}, m, expect,
                               "slice:" + cls + (":stepped" if s == 2 else ":downward" if (s or 1) < 0 else ""))
        # loop ranges reaching outside
        for a in range(-1, n + 2):
            for b in range(a, n + 3):
                el = rng_elems(a, 1, b)
                inr = all(1 <= e <= n for e in el)
                ae = num(a) if a >= 0 else ("neg", num(-a))
                m = {"name": "M", "vars": base_vars(n), "eqs": [], "ieqs": [], "funcs": []}
                m["eqs"].append(("for", "i", ae, None, num(b), [("eq", idx("x", var("i")), ("bin", "*", var("i"), var("y")))]))
                yield ({"n": n, "a": a, "b": b, "ctx": "for-range", "kind": "loop"}, m, "ok" if inr else "reject",
                       "loop-range:" + ("in-range" if inr else "below-1" if min(el) < 1 else "above-n"))
        # index arithmetic inside loops
        for mm in range(1, n + 1):
            for d in range(-2, 3):
                inr = 1 + d >= 1 and mm + d <= n
                m = {"name": "M", "vars": base_vars(n) + [vdecl("w", [mm])], "eqs": [], "ieqs": [], "funcs": []}
                ie = var("i") if d == 0 else ("bin", "+" if d > 0 else "-", var("i"), num(abs(d)))
                m["eqs"].append(("for", "i", num(1), None, num(mm), [("eq", idx("w", var("i")), ("bin", "*", num(3), idx("x", ie)))]))
                yield ({"n": n, "m": mm, "d": d, "ctx": "for-index-arith", "kind": "loop"}, m, "ok" if inr else "reject",
                       "loop-index-arith:" + ("in-range" if inr else "below-1" if d < 0 else "above-n"))
        # non-monotone / non-affine subscript expressions inside loops: every iteration counts
        for mm in range(2, 5):
            for a_ in range(0, 4):
                for b_ in range(-1, 3):
                    subs_ = [(i - a_) * (i - a_) + b_ for i in range(1, mm + 1)]
                    inr = all(1 <= v <= n for v in subs_)
                    m = {"name": "M", "vars": base_vars(n) + [vdecl("w", [mm])], "eqs": [], "ieqs": [], "funcs": []}
                    d_ = ("bin", "-", var("i"), num(a_))
                    ie = ("bin", "*", d_, d_)
                    if b_ != 0:
                        ie = ("bin", "+" if b_ > 0 else "-", ie, num(abs(b_)))
                    m["eqs"].append(("for", "i", num(1), None, num(mm), [("eq", idx("w", var("i")), ("bin", "*", num(3), idx("x", ie)))]))
                    cls_ = "in-range" if inr else ("below-1-in-the-middle" if (1 <= subs_[0] <= n and 1 <= subs_[-1] <= n and min(subs_) < 1)
                                                   else "below-1" if min(subs_) < 1 else "above-n")
                    yield ({"n": n, "m": mm, "a": a_, "b": b_, "ctx": "for-index-quadratic", "kind": "loop"}, m,
                           "ok" if inr else "reject", "loop-index-quadratic:" + cls_)
    # subscripts on a scalar
    for form in ("rhs", "lhs", "slice", "two"):
        m = {"name": "M", "vars": base_vars(2), "eqs": [], "ieqs": [], "funcs": []}
        if form == "rhs":
            m["eqs"].append(("eq", var("y"), idx("s", 1)))
        elif form == "lhs":
            m["eqs"].append(("eq", idx("s", 1), var("y")))
        elif form == "slice":
            m["eqs"].append(("eq", var("y"), ("call", "sum", [("idx", "s", [("slice", num(1), None, num(1))])])))
        else:
            m["eqs"].append(("eq", var("y"), idx("x", 1, 1)))
        yield ({"ctx": "scalar-subscript", "form": form, "kind": "scalar"}, m, "reject", "subscript-on-scalar:" + form)
    # a loop variable that hides an Integer parameter of the same name, with the same subscript text used outside the
    # loop (where it means the parameter) and inside it (where it means the loop variable)
    for n in range(2, 5):
        for lo, hi in ((1, 2), (2, 3), (0, 1)):
            subs_ = [k_ - 1 for k_ in range(lo, hi + 1)]
            inr = all(1 <= v <= n for v in subs_)
            kpar = {"name": "k", "type": "Integer", "prefixes": ["parameter"], "dims": [], "attrs": {}, "value": num(n)}
            m = {"name": "M", "vars": base_vars(n) + [kpar, vdecl("w", [3])], "eqs": [], "ieqs": [], "funcs": []}
            km1 = ("bin", "-", var("k"), num(1))
            m["eqs"].append(("eq", var("y"), idx("x", km1)))
            m["eqs"].append(("for", "k", num(lo), None, num(hi), [("eq", idx("w", ("bin", "+", var("k"), num(1 - lo))), ("bin", "*", num(3), idx("x", km1)))]))
            yield ({"n": n, "lo": lo, "hi": hi, "ctx": "loop-variable-hides-parameter", "kind": "loop"}, m, "ok" if inr else "reject",
                   "loop-variable-hides-parameter:" + ("in-range" if inr else "below-1"))
    # a scalar subscripted by a loop variable
    for mm in (1, 2):
        for side in ("lhs", "rhs"):
            m = {"name": "M", "vars": base_vars(2) + [vdecl("w", [mm])], "eqs": [], "ieqs": [], "funcs": []}
            body = ("eq", idx("s", var("i")), num(1)) if side == "lhs" else ("eq", idx("w", var("i")), idx("s", var("i")))
            m["eqs"].append(("for", "i", num(1), None, num(mm), [body]))
            yield ({"ctx": "scalar-subscript-in-loop", "m": mm, "side": side, "kind": "scalar"}, m, "reject",
                   "subscript-on-scalar:loop-variable")
    # arrays of size 0: every subscript is out of range; an empty loop over them is fine
    for mm in (0, 1, 2):
        m = {"name": "M", "vars": base_vars(2) + [vdecl("z", [0])], "eqs": [("eq", var("y"), num(1))], "ieqs": [], "funcs": []}
        m["eqs"].append(("for", "i", num(1), None, num(mm), [("eq", idx("z", var("i")), num(1))]))
        yield ({"ctx": "empty-array-in-loop", "m": mm, "kind": "loop"}, m, "ok" if mm == 0 else "reject",
               "empty-array:" + ("empty-loop" if mm == 0 else "loop-variable-subscript"))
    for k in (0, 1):
        m = {"name": "M", "vars": base_vars(2) + [vdecl("z", [0])], "eqs": [("eq", var("y"), idx("z", k))], "ieqs": [], "funcs": []}
        yield ({"ctx": "empty-array-constant-subscript", "k": k, "kind": "scalar"}, m, "reject", "empty-array:constant-subscript")


def cases_2d():
    for n1 in range(1, 4):
        for n2 in range(1, 4):
            for r in range(-1, n1 + 3):
                for c in range(-1, n2 + 3):
                    inr = 1 <= r <= n1 and 1 <= c <= n2
                    re_ = num(r) if r >= 0 else ("neg", num(-r))
                    ce = num(c) if c >= 0 else ("neg", num(-c))
                    for ctx_name in ("rhs", "lhs"):
                        m = {"name": "M", "vars": base_vars(0, (n1, n2)), "eqs": [], "ieqs": [], "funcs": []}
                        ref = idx("A", re_, ce)
                        if ctx_name == "rhs":
                            m["eqs"].append(("eq", var("y"), ("bin", "*", num(2), ref)))
                        else:
                            m["eqs"].append(("eq", ref, var("y")))
                        if inr:
                            cls = "in-range"
                        else:
                            cls = ("row-" if not 1 <= r <= n1 else "col-") + ("below-1" if (r < 1 or (1 <= r <= n1 and c < 1)) else "above-n")
                        yield ({"shape": [n1, n2], "r": r, "c": c, "ctx": ctx_name, "kind": "index2d"}, m,
                               "ok" if inr else "reject", "index2d:" + cls)
            # inside a for-loop: loop variable in one position, constant subscript in the other
            for c in range(-1, max(n1, n2) + 3):
                ce = num(c) if c >= 0 else ("neg", num(-c))
                for order in ("loop-first", "constant-first"):
                    if order == "loop-first":
                        inr = 1 <= c <= n2
                        ref = idx("A", var("i"), ce)
                        cnt = n1
                    else:
                        inr = 1 <= c <= n1
                        ref = idx("A", ce, var("i"))
                        cnt = n2
                    m = {"name": "M", "vars": base_vars(0, (n1, n2)) + [vdecl("w", [cnt])], "eqs": [], "ieqs": [], "funcs": []}
                    m["eqs"].append(("for", "i", num(1), None, num(cnt), [("eq", idx("w", var("i")), ("bin", "*", num(2), ref))]))
                    lim = n2 if order == "loop-first" else n1
                    yield ({"shape": [n1, n2], "c": c, "ctx": "for-2d-" + order, "kind": "loop2d"}, m, "ok" if inr else "reject",
                           "loop2d:%s:%s" % (order, "in-range" if inr else "below-1" if c < 1 else "above-n"))
            # loop ranges and index arithmetic reaching outside, loop variable in either position
            for order in ("loop-first", "loop-second"):
                lim = n1 if order == "loop-first" else n2
                other = rng_other = 1
                for a in range(-1, 3):
                    for b in range(max(a, 1), lim + 2):
                        for d in (0, -1, 1):
                            if d and a != 1:
                                continue
                            el = [e + d for e in rng_elems(a, 1, b)]
                            inr = all(1 <= e <= lim for e in el)
                            ae = num(a) if a >= 0 else ("neg", num(-a))
                            ie = var("i") if d == 0 else ("bin", "+" if d > 0 else "-", var("i"), num(abs(d)))
                            ref = idx("A", ie, num(other)) if order == "loop-first" else idx("A", num(other), ie)
                            m = {"name": "M", "vars": base_vars(0, (n1, n2)) + [vdecl("w", [b + 2])], "eqs": [], "ieqs": [], "funcs": []}
                            m["eqs"].append(("for", "i", ae, None, num(b), [("eq", idx("w", ("bin", "+", var("i"), num(2))), ("bin", "*", num(2), ref))]))
                            yield ({"shape": [n1, n2], "a": a, "b": b, "d": d, "ctx": "for-2d-range-" + order, "kind": "loop2d"}, m,
                                   "ok" if inr else "reject",
                                   "loop2d-range:%s:%s" % (order, "in-range" if inr else "below-1" if min(el) < 1 else "above-n"))
            # row/column slices
            for r in range(0, n1 + 2):
                for a in range(-1, n2 + 3):
                    for b in range(a, n2 + 3):
                        el = rng_elems(a, 1, b)
                        inr = 1 <= r <= n1 and all(1 <= e <= n2 for e in el)
                        re_ = num(r)
                        ae = num(a) if a >= 0 else ("neg", num(-a))
                        m = {"name": "M", "vars": base_vars(0, (n1, n2)), "eqs": [], "ieqs": [], "funcs": []}
                        m["eqs"].append(("eq", var("y"), ("call", "sum", [("idx", "A", [re_, ("slice", ae, None, num(b))])])))
                        cls = "in-range" if inr else ("row-out" if not 1 <= r <= n1 else "lower-below-1" if min(el) < 1 else "upper-above-n")
                        yield ({"shape": [n1, n2], "r": r, "a": a, "b": b, "ctx": "sum-row-slice", "kind": "slice2d"}, m,
                               "ok" if inr else "reject", "slice2d:" + cls)


def point(m, rng):
    env = {"time": 0.5}
    for v in m["vars"]:
        shape = tuple(v["dims"])
        if v["type"] == "Integer" and v.get("value") is not None:
            env[v["name"]] = mexpr.evaluate(v["value"], {})
            continue
        if shape:
            env[v["name"]] = np.array([round(rng.uniform(1, 9), 3) for _ in range(int(np.prod(shape)))]).reshape(shape)
            env["der(%s)" % v["name"]] = np.array([round(rng.uniform(1, 9), 3) for _ in range(int(np.prod(shape)))]).reshape(shape)
        else:
            env[v["name"]] = round(rng.uniform(1, 9), 3)
            env["der(%s)" % v["name"]] = round(rng.uniform(1, 9), 3)
    return env


def run_case(ctx, desc, m, expect, cls, rng):
    from checks.c11_residual import compile_model
    text = mflat.print_model(m)
    case = {"desc": desc, "text": text, "expect": expect, "class": cls, "model": m}
    ctx.cover(cls)
    ctx.cover("context:" + desc["ctx"])
    err = None
    model = None
    try:
        model = compile_model(text)
        f = model.dae_residual_function
        f2 = model.initial_residual_function
    except Exception as e:
        err = e
    if expect == "reject":
        ctx.monitor("out_of_range_cases")
        if err is None:
            detail = ""
            try:
                detail = " equations=%s" % (model.equations,)
            except Exception:
                pass
            ctx.violation("C23:%s:%s:accepted" % (desc["ctx"], cls),
                          "out-of-range subscript accepted silently:%s\n%s" % (detail[:300], text), case)
        return
    if expect == "either":
        ctx.monitor("empty_range_cases")
        # a legitimately empty range is not out of range; what an empty selection then means for
        # the surrounding equation is not this property's business
        ctx.cover("empty-range:rejected" if err is not None else "empty-range:accepted")
        return
    if err is not None and expect == "ok-or-refused":
        ctx.cover("downward-range:refused")
        return
    if err is not None:
        ctx.violation("C23:%s:%s:in-range-rejected:%s" % (desc["ctx"], cls, exc_sig(err)),
                      "valid subscript rejected: %r\n%s" % (err, text), case)
        return
    for _ in range(2):
        env = point(m, rng)
        for initial in (False, True):
            if initial and not m["ieqs"]:
                continue
            blocks = mflat.residual_blocks(m, env, initial)
            got = adapters.residual(model, env, initial)
            ctx.monitor("in_range_value_checks")
            bad = mflat.compare_blocks(blocks, got)
            if bad:
                ctx.violation("C23:%s:%s:wrong-elements" % (desc["ctx"], cls),
                              "subscript selects other elements than Modelica's: %s\n%s" % (bad, text), case)
                return


def thorough_cases(rng, count):
    """component arrays holding arrays and expression subscripts (random window)."""
    for _ in range(count):
        n, mlen = rng.randint(1, 3), rng.randint(1, 3)
        k, j = rng.randint(-1, n + 2), rng.randint(-1, mlen + 2)
        inr = 1 <= k <= n and 1 <= j <= mlen
        form = rng.choice(["expr-sub", "expr-sub", "param-sub"])
        if form == "expr-sub":
            # x[a+b] with constant operands
            a = rng.randint(-2, 3)
            b = k - a
            sub = ("bin", "+", num(a) if a >= 0 else ("neg", num(-a)), num(b) if b >= 0 else ("neg", num(-b)))
            if a < 0:
                sub = ("bin", "-", num(b), num(-a)) if b >= 0 else sub
            m = {"name": "M", "vars": base_vars(n), "eqs": [("eq", var("y"), idx("x", sub))], "ieqs": [], "funcs": []}
            ok = 1 <= k <= n
            yield ({"n": n, "k": k, "ctx": "expr-subscript", "kind": "index", "sub": mexpr.to_text(sub)}, m,
                   "ok" if ok else "reject", "index-expr:" + ("in-range" if ok else "below-1" if k < 1 else "above-n"))
        else:
            m = {"name": "M", "vars": base_vars(n) + [{"name": "q", "type": "Integer", "prefixes": ["parameter"], "dims": [],
                                                       "attrs": {}, "value": num(k) if k >= 0 else ("neg", num(-k))}],
                 "eqs": [("eq", var("y"), idx("x", var("q")))], "ieqs": [], "funcs": []}
            ok = 1 <= k <= n
            yield ({"n": n, "k": k, "ctx": "parameter-subscript", "kind": "index"}, m,
                   "ok" if ok else "reject", "index-param:" + ("in-range" if ok else "below-1" if k < 1 else "above-n"))


def run_shard(ctx):
    logging.getLogger("pymoca").setLevel(logging.ERROR)
    rng = ctx.rng
    allc = itertools.chain(cases_1d(), cases_2d())
    for i, (desc, m, expect, cls) in enumerate(allc):
        if i % ctx.nshards != ctx.shard:
            continue
        ctx.case(desc, True, {"model": mflat.print_model(m), "expect": expect, "class": cls} if not ctx.samples else None)
        ctx.guarded(run_case, ctx, desc, m, expect, cls, rng, timeout=30)
    n = ctx.n(300, 20000)
    for desc, m, expect, cls in thorough_cases(rng, n):
        if ctx.out_of_time():
            break
        ctx.case(desc, True, None)
        ctx.guarded(run_case, ctx, desc, m, expect, cls, rng, timeout=30)


def replay(ctx, case):
    logging.getLogger("pymoca").setLevel(logging.ERROR)
    from checks.c11_residual import _remodel
    run_case(ctx, case["desc"], _remodel(case["model"]), case["expect"], case["class"], ctx.rng)
