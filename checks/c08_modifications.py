"""C08 - modifications take effect with Modelica precedence in either spelling.

Two monitors on tree.flatten:
 * reference merge (vf.mlib.instantiate: outermost applicable modification wins, extends modifier over
   the base's own, type definition lowest, expressions resolved where written) vs the real flat model;
 * metamorphic twin: the same library description is printed twice with independent spelling choices
   (dotted / nested / mixed); both must give the same flat model or be rejected."""
import logging

import numpy as np

from vf import adapters, mexpr, mlib
from vf.mlib import num, var
from vf.worker import exc_sig
from checks import c07_hier_flatten as c07

LEVEL = "exploration"
RULE = ("generated chains S <- W <- V <- M of class-typed components (plus an extends level and a type definition) "
        "where a parameter value and the attributes of a variable are modified at 2-4 competing levels with literal "
        "and name-referencing expressions (names existing in inner and outer scope with different values); each "
        "library printed twice with independent spellings; distinct = digest of (library text pair); non-trivial = "
        ">=2 competing modifications of one target")
ASSUMPTIONS = ["vf.mlib's merge order is Modelica's: type definition < declaration < extends clauses (inner to outer) < enclosing components (inner to outer)",
               "a rejected spelling (any exception) is acceptable; two accepted spellings must agree"]
REQUIRED_MONITORS = ["reference_comparisons", "twin_comparisons", "attribute_cells_compared"]
BUDGET = {"quick": 45, "thorough": 700}
ATTRS = ("start", "min", "max", "nominal", "fixed", "unit")
NUM_ATTRS = ("start", "min", "max", "nominal")


class Gen:
    def __init__(self, rng, ext=None):
        self.r, self.ext = rng, ext
        self.tags = set()
        self.competing = 0

    def lit(self):
        return num(self.r.randint(1, 60))

    def expr(self, names, allow_names=True):
        r = self.r
        if not allow_names or not names or r.random() < 0.4:
            return self.lit()
        n = var(r.choice(names))
        k = r.random()
        if k < 0.4:
            return n
        if k < 0.7:
            return ("bin", "+", n, self.lit())
        return ("bin", "*", self.lit(), n)

    def comp(self, name, typ, mods=None, prefixes=(), value=None):
        return {"name": name, "type": typ, "prefixes": list(prefixes), "dims": [], "mods": list(mods or []), "value": value}

    def cls(self, name, comps, eqs=(), extends=()):
        return {"name": name, "kind": "model", "alias": None, "extends": list(extends), "comps": comps, "classes": [],
                "eqs": list(eqs), "ieqs": [], "connects": []}

    def mod(self, path, attr, expr):
        return {"path": list(path), "attr": attr, "expr": expr, "spelling": "mixed"}

    def build(self):
        r = self.r
        lib = {"classes": []}
        # type definition level
        use_alias = r.random() < 0.5
        xtype = "Real"
        if use_alias:
            am = {}
            for a in r.sample(NUM_ATTRS, r.randint(1, 3)):
                am[a] = self.lit()
            if r.random() < 0.3:
                am["unit"] = ("str", r.choice(["m", "s", "kg"]))
            lib["classes"].append({"name": "TK", "kind": "type", "alias": {"base": "Real", "mods": am}})
            xtype = "TK"
            self.tags.add("level:type-definition")
            if r.random() < 0.4:
                # a type defined from the type (type TK2 = TK(...)): one more, higher level below the declaration
                am2 = {a: self.lit() for a in r.sample(NUM_ATTRS, r.randint(0, 2))}
                lib["classes"].append({"name": "TK2", "kind": "type", "alias": {"base": "TK", "mods": am2}})
                xtype = "TK2"
                self.tags.add("level:type-definition-from-type-definition")
        ambiguous = r.random() < 0.6      # the parameter name r exists at every level
        pname = (lambda lvl: "r") if ambiguous else (lambda lvl: "r" + lvl)
        if ambiguous:
            self.tags.add("names:same-name-in-inner-and-outer-scope")
        # S: innermost class
        sp = pname("s")
        xmods = []
        for a in r.sample(NUM_ATTRS, r.randint(0, 3)):
            xmods.append(self.mod([], a, self.expr([sp], allow_names=True)))
            self.tags.add("level:declaration")
        if r.random() < 0.2:
            xmods.append(self.mod([], "fixed", ("bool", r.random() < 0.5)))
        S = self.cls("S", [self.comp(sp, "Real", prefixes=["parameter"], value=self.lit()),
                           self.comp("x", xtype, xmods),
                           self.comp("y", "Real")],
                     eqs=[("eq", var("y"), ("bin", "*", var(sp), var("x")))])
        lib["classes"].append(S)
        chain = [("S", sp)]
        inner_name = "S"
        # optional extends level between S and the first enclosing component
        if r.random() < 0.45:
            emods = self.target_mods([], sp, "extends")
            ep = pname("e")
            comps = [] if ambiguous else [self.comp(ep, "Real", prefixes=["parameter"], value=self.lit())]
            E = self.cls("E", comps, extends=[{"name": "S", "mods": emods}])
            lib["classes"].append(E)
            inner_name = "E"
            self.tags.add("level:extends")
            if r.random() < 0.3:
                E2 = self.cls("E2", [], extends=[{"name": "E", "mods": self.target_mods([], sp, "extends-outer")}])
                lib["classes"].append(E2)
                inner_name = "E2"
                self.tags.add("level:extends-of-extends")
        # enclosing components: W (has s), V (has w), M (has v / w / s)
        depth = r.randint(1, 3)
        path = []
        cur = inner_name
        insts = ["s", "w", "v"]
        levels = ["w", "v", "m"]
        # an instance name that repeats on a path, with a sibling of the repeated part:  M: V v;  V: W v; S s;  W: S s
        # (flat variables v.v.s.x and v.s.x: a reference v.s.r that is prefixed twice lands on the existing v.v.s.r)
        repeat = depth == 3 and r.random() < 0.4
        if repeat:
            insts = ["s", "v", "v"]
            self.tags.add("names:instance-name-repeated-on-path")
        wrapped_by_extends = False
        for d in range(depth):
            inst = insts[d]
            lp = pname(levels[d])
            path = [inst] + path
            mods = self.target_mods(path[1:] if False else path[1:], sp, "enclosing-%d" % (d + 1), scope_names=[lp], full_path=path)
            cname = "M" if d == depth - 1 else ("W" if d == 0 else "V")
            C = self.cls(cname, [self.comp(lp, "Real", prefixes=["parameter"], value=self.lit()),
                                 self.comp(inst, cur, mods)])
            if repeat and d == 1:
                C["comps"].append(self.comp("s", inner_name))
            lib["classes"].append(C)
            cur = cname
            if d == 0 and not repeat and r.random() < 0.3:
                # an extends level above the first enclosing component: class WE extends W(s.x.max = r, ...); the
                # modified sub-component s is sometimes declared in W without any modifier at all
                if r.random() < 0.5:
                    C["comps"][1]["mods"] = []
                    self.tags.add("extends-modifies-member-of-unmodified-sub-component")
                emods2 = self.target_mods(path, sp, "extends-over-component", scope_names=[lp], full_path=path)
                WE = self.cls(cname + "E", [], extends=[{"name": cname, "mods": emods2}])
                lib["classes"].append(WE)
                cur = cname + "E"
                wrapped_by_extends = True
                self.tags.add("level:extends-over-enclosing-component")
            self.tags.add("level:enclosing-component-%d" % (d + 1))
        self.top = cur
        if r.random() < 0.25 and depth >= 1 and not repeat and not wrapped_by_extends:
            # the modified classes live in a package; the first enclosing (wrapper) class has the same
            # short name as the library class it instantiates (Lib.S inside a top-level S)
            inner = [c for c in lib["classes"] if c["name"] in ("TK", "TK2", "S", "E", "E2")]
            outer = [c for c in lib["classes"] if c["name"] not in ("TK", "TK2", "S", "E", "E2")]
            first_wrapper = outer[0]
            target = first_wrapper["comps"][1]["type"]          # S, E or E2
            for c in inner:
                for comp in c.get("comps", []):
                    pass
            first_wrapper["comps"][1]["type"] = "Lib." + target
            old_name = first_wrapper["name"]
            first_wrapper["name"] = target
            for c in outer[1:]:
                for comp in c["comps"]:
                    if comp["type"] == old_name:
                        comp["type"] = target
            if self.top == old_name:
                self.top = target
            lib["classes"] = [{"name": "Lib", "kind": "package", "alias": None, "extends": [], "comps": [], "classes": inner,
                               "eqs": [], "ieqs": [], "connects": []}] + outer
            self.tags.add("names:wrapper-class-shares-short-name-with-library-class")
        elif r.random() < 0.25 and depth >= 1:
            # the outermost class becomes a local class of the model that uses it:  model CL  model M ... end M;  M l;  end CL;
            # (M's class-typed component carries the modifiers)
            topc = [c for c in lib["classes"] if c["name"] == self.top][0]
            lib["classes"].remove(topc)
            CL = self.cls("CL", [self.comp("l", self.top)])
            CL["classes"].append(topc)
            lib["classes"].append(CL)
            self.top = "CL"
            self.tags.add("level:local-class-of-the-using-model")
        return lib

    def target_mods(self, subpath, sp, level, scope_names=None, full_path=None):
        """modifications written at one level, aimed at the parameter value and at x's attributes.
        subpath: component path from the modified component/base down to S's members."""
        r = self.r
        mods = []
        names = scope_names if scope_names is not None else []
        # for an extends level the writing scope is the extending class: its own parameter (if any)
        if r.random() < 0.6:
            e = self.expr(names, allow_names=True)
            mods.append(self.mod(list(subpath) + [sp], None, e))
            self.competing += 1
            if mexpr.vars_in(e):
                self.tags.add("value-modifier:references-name-of-writing-scope")
        k = r.randint(0, 3)
        for a in r.sample(NUM_ATTRS, k):
            e = self.expr(names, allow_names=True)
            if mexpr.vars_in(e):
                self.tags.add("attribute-modifier:references-name-of-writing-scope")
            mods.append(self.mod(list(subpath) + ["x"], a, e))
            self.competing += 1
        if r.random() < 0.15:
            mods.append(self.mod(list(subpath) + ["x"], "fixed", ("bool", r.random() < 0.5)))
        if r.random() < 0.1:
            mods.append(self.mod(list(subpath) + ["x"], "unit", ("str", r.choice(["A", "V", "W"]))))
        return mods


def assign_spellings(lib, rng, allow_ext):
    """choose a spelling per modification.  -> set of extension spelling tags used."""
    used = set()

    def one(m, level_is_extends):
        plen = len(m["path"])
        if m["attr"] is None:
            # value modifier: dotted path (nested == dotted when the path has length 1)
            if plen >= 2 and allow_ext and rng.random() < 0.5:
                m["spelling"] = "nested"
                used.add("ext:nested-through-class-level")
            else:
                m["spelling"] = "dotted"
            return
        if plen == 0:
            m["spelling"] = "mixed"
            return
        if allow_ext and plen >= 2 and rng.random() < 0.5:
            m["spelling"] = "nested"
            used.add("ext:nested-through-class-level")
            return
        if rng.random() < 0.35:
            m["spelling"] = "dotted"
            used.add("spelling:dotted-attribute")
            return
        m["spelling"] = "mixed" if plen >= 2 else rng.choice(["mixed", "nested"])

    for c in lib["classes"]:
        for e in c.get("extends", []):
            for m in e.get("mods") or []:
                one(m, True)
        for comp in c.get("comps", []):
            for m in comp.get("mods") or []:
                one(m, False)
    return used


def attr_values(fc, ref, pts, ctx=None):
    """-> {flat name: {attr: tuple of values / literal}} for pymoca flat class and for the reference."""
    names = set(ref.vars)
    got, exp = {}, {}
    for n in ref.order:
        sym, rv = fc.symbols[n], ref.vars[n]
        g, e = {}, {}
        for a in ATTRS + ("value",):
            node = getattr(sym, a)
            m = adapters.to_mexpr(node) if not (hasattr(node, "value") and node.value is None) else None
            if a == "value":
                r_ = rv["value"] if (set(rv["prefixes"]) & {"parameter", "constant"}) else None
            else:
                r_ = rv["attrs"].get(a)
            if a == "fixed" and r_ is None:
                r_ = (("bool", False), "")
            for store, expr in ((g, m), (e, None if r_ is None else mlib.rename(r_[0], r_[1], names))):
                if expr is None:
                    store[a] = None
                elif expr[0] == "str":
                    store[a] = expr[1]
                else:
                    store[a] = tuple(float(np.asarray(mexpr.evaluate(expr, env, "casadi"), dtype=float)) for env in pts)
            if ctx is not None:
                ctx.monitor("attribute_cells_compared")
        got[n], exp[n] = g, e
    return got, exp


def differs(a, b):
    if a is None or b is None or isinstance(a, str) or isinstance(b, str):
        return a != b
    return any(abs(x - y) > 1e-9 * max(1.0, abs(x), abs(y)) for x, y in zip(a, b))


def flatten_text(text, top):
    from pymoca import ast as past, parser, tree as ptree
    t = parser.parse(text, bypass_cache=True)
    if t is None:
        raise SyntaxError("generated library rejected by the parser")
    flat = ptree.flatten(t, past.ComponentRef.from_string(top))
    return flat.classes[top]


def one_case(ctx, rng, k, replay_case=None):
    if replay_case is None:
        ext = None
        kx = rng.random()
        if kx < 0.10:
            ext = "ext:spelling"
        g = Gen(rng, ext)
        lib = g.build()
        top = g.top
        # twin printing
        import copy
        libA, libB = copy.deepcopy(lib), copy.deepcopy(lib)
        usedA = assign_spellings(libA, rng, ext == "ext:spelling")
        usedB = assign_spellings(libB, rng, False)
        tags = set(g.tags) | usedA | usedB
        nontrivial = g.competing >= 2
    else:
        lib = c07.relib(replay_case["lib"])
        libA, libB = c07.relib(replay_case["libA"]), c07.relib(replay_case["libB"])
        top, tags, nontrivial, ext = replay_case["top"], set(replay_case["tags"]), True, None
    textA, textB = mlib.print_library(libA), mlib.print_library(libB)
    exts = sorted(t for t in tags if t.startswith("ext:"))
    feat = exts[0] if exts else "core"
    case = {"lib": lib, "libA": libA, "libB": libB, "top": top, "tags": sorted(tags), "textA": textA, "textB": textB}
    ctx.case({"a": textA, "b": textB}, nontrivial, {"spelling_A": textA, "spelling_B": textB, "top": top} if k < 1 else None)
    for t in tags:
        ctx.cover(t)
    idx, cls = mlib.find_class(lib, top)
    ref = mlib.instantiate(idx, cls)
    outcomes = []
    for label, text in (("A", textA), ("B", textB)):
        try:
            outcomes.append(("ok", flatten_text(text, top)))
        except Exception as e:
            outcomes.append(("rejected", e))
            ctx.cover("rejected:" + type(e).__name__)
    if feat == "core":
        for (st, val), text in zip(outcomes, (textA, textB)):
            if st == "rejected":
                ctx.violation("C08:core:rejected:%s" % exc_sig(val), "core spelling rejected: %r\n%s" % (val, text), case)
                return
    pts = c07.make_points(ref, rng, 3)
    results = []
    for (st, fc), text in zip(outcomes, (textA, textB)):
        if st != "ok":
            results.append(None)
            continue
        ctx.monitor("reference_comparisons")
        try:
            bad = c07.compare_flat(ctx, fc, ref, rng, feat)
            if bad:
                ctx.violation("C08:%s:structure:%s" % (feat, bad[0]), "%s\n%s" % (bad[1], text), case)
                return
            got, exp = attr_values(fc, ref, pts, ctx)
        except (adapters.Unknown, mexpr.Undefined, KeyError) as u:
            ctx.violation("C08:%s:attribute-unevaluable:%s" % (feat, type(u).__name__),
                          "flat attribute cannot be evaluated over the flat names: %r\n%s" % (u, text), case)
            return
        results.append(got)
        for n in ref.order:
            for a in ATTRS + ("value",):
                if differs(got[n][a], exp[n][a]):
                    kind = "value" if a == "value" else "attribute"
                    ctx.violation("C08:%s:wrong-%s-wins" % (feat, kind),
                                  "%s.%s = %s, outermost applicable modification gives %s\n%s" % (n, a, got[n][a], exp[n][a], text), case)
                    return
    if results[0] is not None and results[1] is not None:
        ctx.monitor("twin_comparisons")
        if any(differs(results[0][n][a], results[1][n][a]) for n in ref.order for a in ATTRS + ("value",)):
            ctx.violation("C08:%s:spellings-flatten-differently" % feat, "A:\n%s\nB:\n%s" % (textA, textB), case)


def run_shard(ctx):
    logging.disable(logging.CRITICAL)
    for k in range(ctx.n(5000, 60000)):
        if ctx.out_of_time():
            break
        ctx.guarded(one_case, ctx, ctx.rng, k, timeout=60)


def replay(ctx, case):
    logging.disable(logging.CRITICAL)
    one_case(ctx, ctx.rng, 0, case)
