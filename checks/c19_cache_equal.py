"""C19 - cached and code-generated models equal fresh compiles.

Differential monitor at the transfer_model boundary: a fresh compile (no cache) is compared with the
model returned by a second transfer_model(cache=True) call (a CachedModel loaded from the pickle
cache) and, for a subset, with a model loaded from code-generated shared libraries in a fresh
subprocess.  Compared: every variable list (names, order, shapes, python types, aliases, attribute
values at 5 parameter points), string parameters/constants, outputs, delay states, alias relation,
the four functions at 5 typed points and the delay arguments of the model object."""
import json
import logging
import os
import shutil
import subprocess
import sys

from vf import cachecmp, gencache
from vf.worker import exc_sig

LEVEL = "exploration"
RULE = ("vf.gencache models (parameter-dependent attributes, aliases, delays, string parameters, loops, functions) "
        "x 7 option sets; pickle cache for every case, code generation (4 shared objects, fresh subprocess per "
        "loader) for a subset, followed by a second option set in the same folder; distinct = digest of (model text, options, loader); non-trivial = the model has a "
        "parameter-dependent attribute, an alias equation, a delay or a string parameter")
ASSUMPTIONS = ["cache=True implies expand_mx=True, so the fresh compile uses expand_mx=True as well",
               "evaluation points are deterministic functions of the symbol names (Booleans in {0,1})"]
REQUIRED_MONITORS = ["pickle_cache_loads", "codegen_loads", "signature_comparisons"]
BUDGET = {"quick": 60, "thorough": 900}


def run_worker(folder, opts, version=""):
    p = subprocess.run([sys.executable, "-m", "vf.cacheworker", folder, "M", json.dumps(opts), version],
                       capture_output=True, text=True, timeout=600, cwd=os.path.dirname(os.path.dirname(os.path.abspath(__file__))))
    for line in reversed(p.stdout.splitlines()):
        if line.startswith("@@RESULT@@"):
            return json.loads(line[len("@@RESULT@@"):])
    return {"exception": "NoResult", "message": (p.stderr or "")[-300:]}


def one(ctx, rng, k, do_codegen):
    from pymoca.backends.casadi import api
    m, text, tags = gencache.gen_model(rng)
    opts = dict(rng.choice(gencache.OPTION_SETS))
    nt = any(t.startswith(("attr:affine", "attr:non-affine", "alias-equation", "core:delay", "string-")) for t in tags)
    folder = os.path.join(ctx.work, "c19_%d" % k)
    shutil.rmtree(folder, ignore_errors=True)
    os.makedirs(folder)
    case = {"text": text, "options": opts, "tags": sorted(tags), "codegen": do_codegen}
    ctx.case({"t": text, "o": opts, "cg": do_codegen}, nt, {"model": text, "options": opts} if k < 1 else None)
    for t in tags:
        ctx.cover(t)
    ctx.cover("options:" + ("+".join(sorted(opts)) or "default"))
    try:
        with open(os.path.join(folder, "M.mo"), "w") as f:
            f.write(text)
        try:
            fresh = api.transfer_model(folder, "M", dict(opts, expand_mx=True))
            sig_f = cachecmp.signature(fresh)
        except Exception as e:
            ctx.discard("fresh-compile-fails:" + type(e).__name__)
            return
        try:
            first = api.transfer_model(folder, "M", dict(opts, cache=True))
            second = api.transfer_model(folder, "M", dict(opts, cache=True))
        except Exception as e:
            ctx.violation("C19:pickle-cache:transfer-raises:%s" % exc_sig(e), "transfer_model(cache=True) raised %r\n%s" % (e, text), case)
            return
        if type(second).__name__ == "CachedModel":
            ctx.monitor("pickle_cache_loads")
        else:
            ctx.cover("second-call-recompiled-instead-of-loading")
        for label, mdl in (("first-call(compile+save)", first), ("second-call(load)", second)):
            try:
                sig = cachecmp.signature(mdl)
            except Exception as e:
                ctx.violation("C19:pickle-cache:model-unusable:%s" % type(e).__name__,
                              "%s: evaluating the model raised %r\n%s" % (label, e, text), case)
                return
            ctx.monitor("signature_comparisons")
            d = cachecmp.first_difference(sig_f, sig)
            if d:
                ctx.violation("C19:pickle-cache:differs:%s" % d.split(":")[0].split("[")[0].strip("."),
                              "%s differs from a fresh compile at %s\noptions %s\n%s" % (label, d, opts, text), case)
                return
        if do_codegen:
            for f in os.listdir(folder):
                if f.endswith(".pymoca_cache"):
                    os.remove(os.path.join(folder, f))
            # codegen does not force expand_mx: the reference is a fresh compile under exactly these options; a model
            # that does not compile under them (e.g. detect_aliases on 'x = x' without expand_mx) is outside the property
            try:
                sig_ref = cachecmp.signature(api.transfer_model(folder, "M", dict(opts)))
            except Exception as e:
                ctx.discard("fresh-compile-without-expand_mx-fails:" + type(e).__name__)
                return
            r1 = run_worker(folder, dict(opts, codegen=True))
            r2 = run_worker(folder, dict(opts, codegen=True))
            for label, r in (("codegen first process (compile)", r1), ("codegen second process (load .so)", r2)):
                if "exception" in r:
                    ctx.violation("C19:codegen:transfer-raises:%s" % r["exception"], "%s raised %s: %s\n%s" % (label, r["exception"], r.get("message"), text), case)
                    return
                ctx.monitor("signature_comparisons")
            if r2.get("class") == "CachedModel":
                ctx.monitor("codegen_loads")
            for label, r in (("codegen first process (compile)", r1), ("codegen second process (load .so)", r2)):
                d = cachecmp.first_difference(sig_ref, r["signature"])
                if d:
                    ctx.violation("C19:codegen:differs:%s" % d.split(":")[0].split("[")[0].strip("."),
                                  "%s differs from a fresh compile at %s\noptions %s\n%s" % (label, d, opts, text), case)
                    return
            # the same folder used again with another option set: libraries built for the first one are lying around
            opts_b = dict(rng.choice([o for o in gencache.OPTION_SETS if o != opts]))
            try:
                sig_ref_b = cachecmp.signature(api.transfer_model(folder, "M", dict(opts_b)))
            except Exception as e:
                ctx.discard("second-option-set:fresh-compile-fails:" + type(e).__name__)
                return
            ctx.cover("codegen:second-option-set-in-the-same-folder")
            for label in ("codegen after another option set (compile)", "codegen after another option set (load .so)"):
                r = run_worker(folder, dict(opts_b, codegen=True))
                if "exception" in r:
                    ctx.violation("C19:codegen:second-option-set:transfer-raises:%s" % r["exception"],
                                  "%s raised %s: %s\nfirst options %s, then %s\n%s" % (label, r["exception"], r.get("message"), opts, opts_b, text), case)
                    return
                ctx.monitor("signature_comparisons")
                d = cachecmp.first_difference(sig_ref_b, r["signature"])
                if d:
                    ctx.violation("C19:codegen:second-option-set:differs:%s" % d.split(":")[0].split("[")[0].strip("."),
                                  "%s differs from a fresh compile at %s\nfirst options %s, then %s\n%s" % (label, d, opts, opts_b, text), case)
                    return
    finally:
        shutil.rmtree(folder, ignore_errors=True)


def run_shard(ctx):
    logging.disable(logging.CRITICAL)
    n = ctx.n(320, 10000)
    # (quick: code generation on shards 0-5 only; six compiler runs per case leave little of the budget otherwise)
    ncg = (1 if ctx.shard < 6 else 0) if ctx.quick() else 20
    for k in range(n):
        if ctx.out_of_time():
            break
        ctx.guarded(one, ctx, ctx.rng, k, k < ncg, timeout=900)


def replay(ctx, case):
    logging.disable(logging.CRITICAL)
    ctx.inconclusive("C19 replay: re-run the check with the recorded seed (models are regenerated from the seed stream); "
                     "the replay file holds the model text and options for manual reproduction")
