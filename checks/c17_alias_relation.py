"""C17 - alias relation is a signed equivalence under any operation history.

Monitors on the real AliasRelation object:
 * a shadow signed union-find updated beside every operation; after every operation the whole
   observable state (aliases, canonical_signed, canonical_variables, iteration) is compared;
 * icontract postconditions on the real add/remove/copy (relation reflexive, symmetric and
   mirrored under negation after every mutation);
 * copy independence in both directions at every explored state x operation.
Exploration: breadth-first over operation sequences on the real object, states deduplicated by the
object's observable fingerprint; plus random long sequences over a larger universe."""
import itertools

from vf.worker import exc_sig

LEVEL = "exploration"
RULE = ("breadth-first exploration of add/remove/copy sequences over 4 names x 2 signs on the real object "
        "(quick: depth 5, thorough: depth 8 or state fix-point), states deduplicated by observable fingerprint, "
        "every state x operation checked against a shadow signed union-find, plus random sequences of length 60 "
        "over 8 names; distinct = distinct (fingerprint, operation) pairs; non-trivial = the state has at least "
        "one non-trivial class or the operation creates one")
ASSUMPTIONS = ["sequences that would relate a variable to its own negation are excluded (stated precondition)",
               "remove() of a name the implementation does not report as canonical may be a no-op or remove the whole class"]
REQUIRED_MONITORS = ["shadow_comparisons", "invariant_evaluations", "copy_independence_checks"]
BUDGET = {"quick": 40, "thorough": 600}
SHARDS = {"quick": 16, "thorough": 16}


class InvariantBroken(Exception):
    pass


def neg(n):
    return n[1:] if n.startswith("-") else "-" + n


def base(n):
    return n[1:] if n.startswith("-") else n


class Shadow:
    """signed union-find by relabelling: name -> (class id, sign)."""

    def __init__(self, names):
        self.c = {n: (i, 1) for i, n in enumerate(names)}

    def copy(self):
        s = Shadow([])
        s.c = dict(self.c)
        return s

    def sgn(self, n):
        cid, s = self.c[base(n)]
        return cid, (-s if n.startswith("-") else s)

    def rel(self, a, b):
        """None if unrelated, else +1/-1 such that a == rel * b."""
        (ca, sa), (cb, sb) = self.sgn(a), self.sgn(b)
        return None if ca != cb else sa * sb

    def add(self, a, b):
        (ca, sa), (cb, sb) = self.sgn(a), self.sgn(b)
        if ca == cb:
            return
        flip = sa * sb      # members of b's class get sign * flip relative to a's class labelling
        for n, (cid, s) in list(self.c.items()):
            if cid == cb:
                self.c[n] = (ca, s * flip)

    def members(self, n):
        cid, s = self.sgn(n)
        out = set()
        for m, (c2, s2) in self.c.items():
            if c2 == cid:
                out.add(m if s2 == s else "-" + m)
        return out

    def remove_class(self, n):
        cid, _ = self.sgn(n)
        fresh = max(c for c, _ in self.c.values()) + 1
        for m, (c2, s2) in list(self.c.items()):
            if c2 == cid:
                self.c[m] = (fresh, 1)
                fresh += 1

    def classes(self):
        d = {}
        for m, (cid, s) in self.c.items():
            d.setdefault(cid, []).append(m)
        return [sorted(v) for v in d.values()]

    def key(self):
        d = {}
        for m, (cid, s) in sorted(self.c.items()):
            d.setdefault(cid, []).append((m, s))
        out = []
        for v in d.values():
            s0 = v[0][1]
            out.append(tuple((m, s * s0) for m, s in v))
        return tuple(sorted(out))


def fingerprint(rel, signed):
    fp = []
    for n in signed:
        fp.append((n, tuple(sorted(rel.aliases(n))), tuple(rel.canonical_signed(n))))
    fp.append(tuple(sorted(rel.canonical_variables)))
    fp.append(tuple(sorted((c, tuple(sorted(a))) for c, a in rel)))
    return tuple(fp)


def compare(rel, sh, names, signed):
    """-> None or description of the first disagreement between the real object and the shadow."""
    for n in signed:
        got = set(rel.aliases(n))
        exp = sh.members(n)
        if got != exp:
            return "aliases(%s) = %s, signed closure gives %s" % (n, sorted(got), sorted(exp))
        c, s = rel.canonical_signed(n)
        if not isinstance(c, str) or s not in (1, -1):
            return "canonical_signed(%s) = %r" % (n, (c, s))
        r = sh.rel(n, c) if base(c) in sh.c else None
        if r is None:
            return "canonical_signed(%s) names %s, which is not in the class %s" % (n, c, sorted(exp))
        if r != s:
            return "canonical_signed(%s) = (%s, %d) but %s == %d * %s in the closure" % (n, c, s, n, r, c)
    for cl in sh.classes():
        cans = {rel.canonical_signed(m)[0] for m in cl}
        if len(cans) != 1:
            return "members of class %s report different canonical names %s" % (cl, sorted(cans))
    entries = list(rel)
    seen = [c for c, _ in entries]
    if len(seen) != len(set(seen)):
        return "iteration yields a canonical variable twice: %s" % seen
    nontriv = [cl for cl in sh.classes() if len(cl) > 1]
    by_class = {}
    for c, al in entries:
        if base(c) not in sh.c:
            return "iteration yields unknown canonical %s" % c
        cid = sh.sgn(c)[0]
        if cid in by_class:
            return "iteration yields two entries for the class of %s" % c
        by_class[cid] = (c, set(al))
        exp = sh.members(c) - {c}
        if set(al) != exp:
            return "iteration entry (%s, %s): aliases should be %s" % (c, sorted(al), sorted(exp))
        if not exp:
            return "iteration yields the trivial class of %s" % c
    if len(by_class) != len(nontriv):
        return "iteration yields %d entries, there are %d non-trivial classes %s" % (len(by_class), len(nontriv), nontriv)
    return None


def install_invariant(ctx):
    """icontract postconditions on the real class's mutators (add/remove) and on copy():
    the relation stays reflexive, symmetric and mirrored under negation."""
    try:
        import icontract
    except ImportError:
        return False
    from pymoca.backends.casadi import alias_relation as AR
    cls = AR.AliasRelation
    if getattr(cls, "_vf_invariant", False):
        return True

    def closed(rel):
        keys = list(rel._aliases.keys()) if hasattr(rel, "_aliases") else []
        for k in keys:
            al = rel.aliases(k)
            if k not in al:
                return False
            for m in al:
                if k not in rel.aliases(m):
                    return False
            if {neg(m) for m in al} != set(rel.aliases(neg(k))):
                return False
        return True

    def closed_under_symmetry_and_negation(self):
        ctx.monitor("invariant_evaluations")
        return closed(self)

    def copy_is_closed(result):
        ctx.monitor("invariant_evaluations")
        return closed(result)

    cls.add = icontract.ensure(closed_under_symmetry_and_negation, error=InvariantBroken)(cls.add)
    cls.remove = icontract.ensure(closed_under_symmetry_and_negation, error=InvariantBroken)(cls.remove)
    cls.copy = icontract.ensure(copy_is_closed, error=InvariantBroken)(cls.copy)
    cls._vf_invariant = True
    return True


def ops_for(names):
    signed = names + ["-" + n for n in names]
    ops = []
    for a in signed:
        for b in signed:
            if base(a) != base(b):
                ops.append(("add", a, b))
        ops.append(("add", a, a))        # reflexive: a legal no-op
    for a in signed:
        ops.append(("remove", a))
    return ops, signed


def apply_op(rel, sh, op):
    """apply op to the real object and the shadow.  -> (skipped, alt_shadow)
    skipped: precondition excluded the op.  alt_shadow: second acceptable outcome (remove)."""
    if op[0] == "add":
        _, a, b = op
        if sh.rel(a, b) == -1:
            return True, None
        rel.add(a, b)
        sh.add(a, b)
        return False, None
    _, a = op
    was_canonical = a in rel.canonical_variables
    rel.remove(a)
    if was_canonical:
        sh.remove_class(a)
        return False, None
    alt = sh.copy()
    if base(a) in alt.c:
        alt.remove_class(a)
    return False, alt


def rebuild(AR, seq, names):
    rel = AR.AliasRelation()
    sh = Shadow(names)
    for op in seq:
        sk, alt = apply_op(rel, sh, op)
        if alt is not None:
            # follow what the object actually did (no-op or whole class)
            if compare(rel, sh, names, names + ["-" + n for n in names]) is not None:
                sh = alt
    return rel, sh


def check_state_op(ctx, AR, seq, op, names, signed):
    """one explored (state, operation) pair.  -> child fingerprint or None"""
    case = {"names": names, "sequence": [list(o) for o in seq], "op": list(op)}
    try:
        rel, sh = rebuild(AR, seq, names)
        before = fingerprint(rel, signed)
        cp = rel.copy()
        if fingerprint(cp, signed) != before:
            ctx.violation("C17:copy:differs-from-source", "copy() of the state after %s differs from its source" % (seq,), case)
            return None
        sh_cp = sh.copy()
        skipped, alt = apply_op(rel, sh, op)
        if skipped:
            ctx.discard("precondition:self-negation")
            return None
        ctx.monitor("shadow_comparisons")
        bad = compare(rel, sh, names, signed)
        if bad and alt is not None:
            bad2 = compare(rel, alt, names, signed)
            if bad2 is None:
                bad, sh = None, alt
        if bad:
            ctx.violation("C17:%s:closure-mismatch" % op[0], "after %s then %s: %s" % (list(seq), op, bad), case)
            return None
        # the earlier copy must not have moved
        ctx.monitor("copy_independence_checks")
        if fingerprint(cp, signed) != before:
            ctx.violation("C17:copy:source-operation-leaks-into-copy",
                          "%s on the source changed a copy taken before it (history %s)" % (op, list(seq)), case)
            return None
        # the same operation on the copy must give the same result and leave the source alone
        after = fingerprint(rel, signed)
        sk2, alt2 = apply_op(cp, sh_cp, op)
        if fingerprint(rel, signed) != after:
            ctx.violation("C17:copy:copy-operation-leaks-into-source",
                          "%s on a copy changed its source (history %s)" % (op, list(seq)), case)
            return None
        bad = compare(cp, sh_cp, names, signed)
        if bad and alt2 is not None and compare(cp, alt2, names, signed) is None:
            bad = None
        if bad:
            ctx.violation("C17:copy:%s-on-copy-mismatch" % op[0], "on a copy after %s then %s: %s" % (list(seq), op, bad), case)
            return None
        return after
    except InvariantBroken as e:
        ctx.violation("C17:invariant:symmetry-or-negation-mirror", "class invariant broken after %s then %s: %s" % (list(seq), op, e), case)
    except Exception as e:
        ctx.violation("C17:%s:raises:%s" % (op[0], exc_sig(e)), "%r after %s then %s" % (e, list(seq), op), case)
    return None


def bfs(ctx, AR, names, max_depth):
    ops, signed = ops_for(names)
    rel0 = AR.AliasRelation()
    seen = {fingerprint(rel0, signed): ()}
    frontier = [()]
    depth = 0
    fix = False
    while frontier and depth < max_depth:
        nxt = []
        # the frontier is striped over shards; every shard walks the same BFS tree deterministically
        for si, seq in enumerate(frontier):
            mine = (si % ctx.nshards) == ctx.shard
            for op in ops:
                if ctx.out_of_time():
                    ctx.extra["bfs_stopped_by_budget_at_depth"] = depth
                    return len(seen), depth, False
                if mine:
                    rel, sh = rebuild(AR, seq, names)
                    nt = any(len(c) > 1 for c in sh.classes()) or op[0] == "add"
                    ctx.case({"fp": hash(fingerprint(rel, signed)), "op": op}, nt,
                             {"history": [list(o) for o in seq], "operation": list(op)} if len(ctx.samples) < 2 else None)
                    ctx.cover("op:" + op[0])
                    fp = check_state_op(ctx, AR, seq, op, names, signed)
                else:
                    # other shards still need the successor to keep the tree identical
                    try:
                        rel, sh = rebuild(AR, seq, names)
                        if op[0] == "add" and sh.rel(op[1], op[2]) == -1:
                            fp = None
                        else:
                            apply_op(rel, sh, op)
                            fp = fingerprint(rel, signed)
                    except Exception:
                        fp = None
                if fp is not None and fp not in seen:
                    seen[fp] = seq + (op,)
                    nxt.append(seq + (op,))
        frontier = nxt
        depth += 1
        if not nxt:
            fix = True
    return len(seen), depth, fix


def random_histories(ctx, AR, count, nnames=8, length=60):
    names = ["v%d" % i for i in range(nnames)]
    ops, signed = ops_for(names)
    rng = ctx.rng
    for k in range(count):
        if ctx.out_of_time():
            break
        rel = AR.AliasRelation()
        sh = Shadow(names)
        copies = []
        hist = []
        ctx.case({"rand": k, "shard": ctx.shard, "seed": ctx.seed}, True, None)
        try:
            for step in range(length):
                r = rng.random()
                if r < 0.08:
                    copies.append((rel.copy(), sh.copy(), fingerprint(rel, signed), step))
                    hist.append(("copy",))
                    ctx.cover("op:copy")
                    continue
                if r < 0.25:
                    op = ("remove", rng.choice(names))
                elif r < 0.30:
                    a = rng.choice(("", "-")) + rng.choice(names)
                    op = ("add", a, a)
                else:
                    a, b = rng.sample(names, 2)
                    op = ("add", rng.choice(("", "-")) + a, rng.choice(("", "-")) + b)
                if r > 0.9 and copies:
                    # operate on a copy instead of the source
                    ci = rng.randrange(len(copies))
                    crel, csh, _, at = copies[ci]
                    sk, alt = apply_op(crel, csh, op)
                    if sk:
                        continue
                    bad = compare(crel, csh, names, signed)
                    if bad and alt is not None and compare(crel, alt, names, signed) is None:
                        csh, bad = alt, None
                    copies[ci] = (crel, csh, fingerprint(crel, signed), at)
                    ctx.monitor("shadow_comparisons")
                    if bad:
                        ctx.violation("C17:copy:%s-on-copy-mismatch" % op[0], bad,
                                      {"names": names, "random_history": [list(h) for h in hist], "op": list(op)})
                        break
                    hist.append(("on-copy", ci) + op)
                else:
                    sk, alt = apply_op(rel, sh, op)
                    if sk:
                        ctx.discard("precondition:self-negation")
                        continue
                    hist.append(op)
                    ctx.cover("op:" + op[0])
                    ctx.monitor("shadow_comparisons")
                    bad = compare(rel, sh, names, signed)
                    if bad and alt is not None and compare(rel, alt, names, signed) is None:
                        sh, bad = alt, None
                    if bad:
                        ctx.violation("C17:%s:closure-mismatch" % op[0], "%s (history %s)" % (bad, hist[-12:]),
                                      {"names": names, "random_history": [list(h) for h in hist]})
                        break
                # every retained copy must still be where it was left
                bad_copy = False
                for (crel, csh, cfp, at) in copies:
                    ctx.monitor("copy_independence_checks")
                    if fingerprint(crel, signed) != cfp:
                        ctx.violation("C17:copy:source-operation-leaks-into-copy",
                                      "copy taken at step %d changed after %s" % (at, hist[-1]),
                                      {"names": names, "random_history": [list(h) for h in hist]})
                        bad_copy = True
                        break
                if bad_copy:
                    break
        except InvariantBroken as e:
            ctx.violation("C17:invariant:symmetry-or-negation-mirror", "class invariant broken: %s (history %s)" % (e, hist[-12:]),
                          {"names": names, "random_history": [list(h) for h in hist]})
        except Exception as e:
            ctx.violation("C17:random:raises:%s" % exc_sig(e), "%r (history %s)" % (e, hist[-12:]),
                          {"names": names, "random_history": [list(h) for h in hist]})


def run_shard(ctx):
    have = install_invariant(ctx)
    ctx.extra["icontract_invariant_installed"] = bool(have)
    from pymoca.backends.casadi import alias_relation as AR
    names = ["a", "b", "c", "d"]
    depth = 5 if ctx.quick() else 8
    nstates, reached, fix = bfs(ctx, AR, names, depth)
    ctx.extra["bfs"] = ["distinct_states=%d depth_completed=%d state_fixpoint_reached=%s" % (nstates, reached, fix)]
    random_histories(ctx, AR, ctx.n(4000, 200000))


def replay(ctx, case):
    install_invariant(ctx)
    from pymoca.backends.casadi import alias_relation as AR
    names = case["names"]
    signed = names + ["-" + n for n in names]
    if "sequence" in case:
        check_state_op(ctx, AR, tuple(tuple(o) for o in case["sequence"]), tuple(case["op"]), names, signed)
    else:
        rel, sh = AR.AliasRelation(), Shadow(names)
        for h in case["random_history"]:
            if h[0] in ("add", "remove"):
                sk, alt = apply_op(rel, sh, tuple(h))
                bad = compare(rel, sh, names, signed)
                if bad and alt is not None and compare(rel, alt, names, signed) is None:
                    sh, bad = alt, None
                if bad:
                    ctx.violation("C17:%s:closure-mismatch" % h[0], bad, case)
                    return
