"""C20 - the model cache is never used when stale.

History monitor at the transfer_model boundary.  Operations: rewrite a .mo file of the model folder
or of a library folder with a semantically different model (modification time strictly later than
the cache), add a library file the model now uses, flip an option, change the pymoca version, call
transfer_model (cache or codegen).  After every transfer_model the result is compared with a fresh
uncached compile of the *current* sources and options.  Modification times are set explicitly on a
logical clock (whole seconds, far apart): nothing depends on the real clock."""
import json
import logging
import os
import shutil

from vf import cachecmp
from vf.worker import exc_sig
from checks import c19_cache_equal as c19

LEVEL = "exploration"
RULE = ("random histories (length 3-8 of edit-model-file / edit-library-file / add-library-file / option-change / "
        "version-change / transfer) over a model (top-level or in a package, where a file added later can shadow the "
        "library class) that uses a class from a library folder; every edit gets a logical "
        "mtime strictly later than the cache; distinct = digest of the operation history; non-trivial = the history "
        "contains a change (edit, option or version) between two transfer_model calls")
ASSUMPTIONS = ["every edit is strictly later than the cache (equal modification times are never generated)",
               "a changed library path is always accompanied by files newer than the cache"]
REQUIRED_MONITORS = ["transfers_compared", "cache_hits_observed", "stale_situations_created"]
BUDGET = {"quick": 60, "thorough": 900}

OPTION_FLIPS = ["detect_aliases", "expand_vectors", "replace_constant_values", "eliminate_constant_assignments",
                "replace_parameter_expressions", "resolve_parameter_values", "replace_parameter_values",
                "factor_and_simplify_equations", "unroll_loops", "inline_functions", "allow_derivative_aliases",
                "replace_constant_expressions", "check_balanced"]


class World:
    def __init__(self, ctx, rng, root, mode="cache"):
        self.ctx, self.r, self.root, self.mode = ctx, rng, root, mode
        self.mdir = os.path.join(root, "model")
        # sometimes the library folder's path has the model folder's path as a plain string prefix
        self.ldir = os.path.join(root, rng.choice(["lib", "model_lib", "modellib"]))
        os.makedirs(self.mdir)
        os.makedirs(self.ldir)
        self.clock = 1_500_000_000
        self.dir_mtime = {}
        self.link_sub = rng.random() < 0.5
        self.k_model, self.k_lib, self.k_extra, self.k_shadow = 2, 3, None, None
        # sometimes the model lives in a package: a file added later to the model folder can then put a class of
        # the same name as the library class into that package, without touching any existing file
        self.pkg = mode == "cache" and rng.random() < 0.35
        self.name = "P.M" if self.pkg else "M"
        if self.pkg:
            ctx.cover("model-in-a-package")
        self.opts = {"library_folders": [self.ldir]}
        if rng.random() < 0.5:
            self.opts["detect_aliases"] = True
        if rng.random() < 0.5:
            self.opts["expand_mx"] = True      # precondition of eliminable_variable_expression
        # with mtime_check switched off the user has given up the check of the sources (and only that one): such
        # histories contain no file edits, but option and version changes must still invalidate the cache
        self.no_mtime = mode == "cache" and rng.random() < 0.15
        if self.no_mtime:
            self.opts["mtime_check"] = False
            ctx.cover("option:mtime_check=False (histories without file edits)")
        self.version = "1.0.verif"
        self.ops = []
        self.dirty_since_transfer = True
        self.write_model()
        self.write_lib()

    def tick(self):
        self.clock += 1000
        return self.clock

    def touch(self, path, created=None):
        """logical mtime for the file; a directory's mtime changes only when an entry is created in it (as on a
        real file system: rewriting a file in place leaves the directory's mtime alone)."""
        t = self.tick()
        os.utime(path, (t, t))
        d = os.path.dirname(path)
        if created or d not in self.dir_mtime:
            self.dir_mtime[d] = t
        self.fix_dirs()

    def fix_dirs(self):
        for d, t in self.dir_mtime.items():
            if os.path.isdir(d):
                os.utime(d, (t, t))

    def model_text(self):
        extra = "  Extra e;\n" if self.k_extra is not None else ""
        eq_extra = "  w = e.q;\n" if self.k_extra is not None else "  w = 1;\n"
        # every option that can be flipped has something to act on, so that a stale cache is observable
        return self.wrap("model M\n  Real x(start = %d);\n  Real y(max = 2 * p + 1);\n  Real w;\n  parameter Real p = %d;\n"
                "  parameter Real q = 2 * p;\n  constant Real cc = 3;\n  constant Real c2 = 6;\n"
                "  Real al;\n  Real da;\n  Real kc;\n  Real k2;\n  Real fs;\n  Real v[2];\n  Real _el;\n  Real _fx;\n  LibComp c;\n%s"
                "equation\n  der(x) = -%d * x + p + q;\n  y = c.z + x + cc + c2;\n  al = y;\n  da = der(x);\n  kc = 5;\n"
                "  0 = 2 * (fs - x);\n  v = {x, y};\n  _el = 3 * x + 1;\n  _fx = 2 * x + 3;\n  k2 = kc + 1;\n%send M;\n" % (self.k_model, self.k_model + 1, extra, self.k_model, eq_extra))

    def wrap(self, text):
        return "package P\n%send P;\n" % text if self.pkg else text

    def write_shadow(self):
        p = os.path.join(self.mdir, "PLibComp.mo")
        new = not os.path.exists(p)
        with open(p, "w") as f:
            f.write("within P;\nmodel LibComp\n  Real z;\nequation\n  z = %d * time + 1;\nend LibComp;\n" % self.k_shadow)
        self.touch(p, new)

    def copy_sources(self, dest):
        for f in os.listdir(self.mdir):
            if f.endswith(".mo"):
                shutil.copy(os.path.join(self.mdir, f), os.path.join(dest, f))

    def write_model(self):
        p = os.path.join(self.mdir, "M.mo")
        new = not os.path.exists(p)
        with open(p, "w") as f:
            f.write(self.model_text())
        self.touch(p, new)

    def write_lib(self):
        p = os.path.join(self.ldir, "LibComp.mo")
        new = not os.path.exists(p)
        with open(p, "w") as f:
            f.write("model LibComp\n  Real z;\nequation\n  z = %d * time;\nend LibComp;\n" % self.k_lib)
        self.touch(p, new)

    def write_extra(self):
        p = os.path.join(self.ldir, "sub", "Extra.mo")
        new = not os.path.exists(p)
        if new:
            if self.link_sub:
                # the sub-folder is a symbolic link to a directory elsewhere (the compiler follows such links)
                real = os.path.join(self.root, "shared_sub")
                os.makedirs(real, exist_ok=True)
                if not os.path.lexists(os.path.join(self.ldir, "sub")):
                    os.symlink(real, os.path.join(self.ldir, "sub"))
                self.ctx.cover("library-sub-folder-is-a-symlink")
            else:
                os.makedirs(os.path.dirname(p), exist_ok=True)
            self.dir_mtime[self.ldir] = self.clock + 1     # the sub-folder is a new entry of the library folder
        with open(p, "w") as f:
            f.write("model Extra\n  Real q;\nequation\n  q = %d;\nend Extra;\n" % self.k_extra)
        self.touch(p, new)

    def stamp_cache_files(self):
        """the cache gets the current logical time: every later edit is strictly newer."""
        t = self.tick()
        for f in os.listdir(self.mdir):
            if not f.endswith(".mo"):
                os.utime(os.path.join(self.mdir, f), (t, t))
        self.dir_mtime[self.mdir] = t       # the cache file was (re)created in the model folder
        self.fix_dirs()

    def set_version(self):
        import pymoca
        import pymoca.backends.casadi.api as api
        pymoca.__version__ = self.version
        api.__version__ = self.version

    def step(self, force_transfer=False):
        r = self.r
        k = r.random()
        if self.mode == "codegen" and not force_transfer:
            # every change is followed by a transfer anyway (see one()); half of the changes are option flips
            k = r.uniform(0.4, 1.0) if r.random() < 0.5 else r.uniform(0.84, 0.94)
        if force_transfer or k < 0.4:
            return self.op_transfer("cache")
        if self.no_mtime and k < 0.77:
            k = r.uniform(0.77, 1.0)
        if k < 0.50:
            self.k_model += r.randint(1, 3)
            self.write_model()
            self.ops.append(["edit-model-file", self.k_model])
        elif k < 0.60:
            self.k_lib += r.randint(1, 3)
            self.write_lib()
            self.ops.append(["edit-library-file", self.k_lib])
        elif k < 0.72 and self.pkg and r.random() < 0.5:
            first = self.k_shadow is None
            self.k_shadow = (self.k_shadow or 70) + r.randint(1, 3)
            self.write_shadow()
            self.ops.append(["add-file-that-shadows-a-library-class" if first else "edit-file-that-shadows-a-library-class", self.k_shadow])
        elif k < 0.72:
            first = self.k_extra is None
            self.k_extra = (self.k_extra or 4) + r.randint(1, 3)
            self.write_extra()
            if first:
                self.write_model()          # the model starts to use the new class
            # a later edit rewrites only the file in the sub-folder, in place: neither the model file nor any
            # directory gets a new modification time
            self.ops.append(["add-library-file-in-subfolder" if first else "edit-library-file-in-subfolder", self.k_extra])
        elif k < 0.77:
            # an option that is in no default table (so a cache written before does not store it), on a model where it
            # matters: k2 = kc + 1 only becomes a constant assignment in a second simplification pass
            if self.opts.get("iterative_simplification"):
                del self.opts["iterative_simplification"]
            else:
                self.opts.update({"eliminate_constant_assignments": True, "replace_constant_values": True})
                bad = self.op_transfer("cache")
                if bad:
                    return bad
                self.opts["iterative_simplification"] = True
            self.ops.append(["option-change", "iterative_simplification", bool(self.opts.get("iterative_simplification"))])
        elif k < 0.84 and self.opts.get("expand_mx"):
            # differs from the cached options only in a value that is None by default
            # (or in the value only: another regular expression, selecting another variable)
            cur = self.opts.get("eliminable_variable_expression")
            self.opts["eliminable_variable_expression"] = r.choice([v for v in (None, r"_\w+", r"_e\w+", r"_f\w+") if v != cur])
            self.ops.append(["option-change", "eliminable_variable_expression", self.opts["eliminable_variable_expression"]])
        elif k < 0.94:
            o = r.choice(OPTION_FLIPS)
            from pymoca.backends.casadi._options import _get_default_options
            cur = self.opts.get(o, _get_default_options().get(o, False))
            self.opts[o] = not cur
            self.ops.append(["option-change", o, self.opts[o]])
        else:
            old_version = self.version
            while self.version == old_version:
                self.version = r.choice(["1.0.verif%d" % r.randint(1, 5), "1.0.verif+%d.g%06x" % (r.randint(1, 40), r.randrange(16 ** 6)),
                                         "1.0.verif+%d.g%06x" % (r.randint(1, 40), r.randrange(16 ** 6)), "0+untagged.%d.g%06x" % (r.randint(1, 90), r.randrange(16 ** 6))])
            poisoned = False
            if self.mode == "cache" and not self.dirty_since_transfer and r.random() < 0.7:
                # the cache file as another build of pymoca would have written it (here: another value for p): it is
                # tied to the version that wrote it, so after the version change it must not be used
                poisoned = self.poison_cache()
            self.ops.append(["version-change", self.version] + (["cache-written-by-a-different-build"] if poisoned else []))
        self.dirty_since_transfer = True
        self.ctx.cover("op:" + self.ops[-1][0])
        return None

    def poison_cache(self):
        import pickle
        cf = os.path.join(self.mdir, self.name + ".pymoca_cache")
        try:
            with open(cf, "rb") as f:
                db = pickle.load(f)
            hit = [d for d in db.get("parameters", []) if d.get("name") == "p" and isinstance(d.get("value"), (int, float))]
            if not hit:
                return False
            hit[0]["value"] = 777.0
            st = os.stat(cf)
            with open(cf, "wb") as f:
                pickle.dump(db, f)
            os.utime(cf, (st.st_mtime, st.st_mtime))
            self.ctx.cover("cache-poisoned-before-version-change")
            return True
        except Exception:
            return False

    def op_transfer(self, mode):
        from pymoca.backends.casadi import api
        self.set_version()
        self.ops.append(["transfer", mode])
        opts = dict(self.opts, cache=True)
        had_cache = os.path.exists(os.path.join(self.mdir, self.name + ".pymoca_cache"))
        if had_cache and self.dirty_since_transfer:
            self.ctx.monitor("stale_situations_created")
        if self.mode == "codegen":
            # code-generated libraries: every step in a fresh process (dlopen caches shared objects by path)
            had_cache = os.path.exists(os.path.join(self.mdir, self.name + ".pymoca_cache"))
            r_ = c19.run_worker(self.mdir, dict(self.opts, codegen=True), self.version)
            if "exception" in r_:
                try:
                    probe = os.path.join(self.root, "probe")
                    shutil.rmtree(probe, ignore_errors=True)
                    os.makedirs(probe)
                    self.copy_sources(probe)
                    api.transfer_model(probe, self.name, dict(self.opts))
                except Exception as e2:
                    if type(e2).__name__ == r_["exception"]:
                        self.ctx.discard("sources-do-not-compile-under-these-options:" + r_["exception"])
                        return "stop"
                finally:
                    shutil.rmtree(os.path.join(self.root, "probe"), ignore_errors=True)
                return ("C20:codegen:transfer-raises:%s" % r_["exception"], "transfer_model(codegen) raised %s: %s" % (r_["exception"], r_.get("message")))
            sig = r_["signature"]
            sig_reload = None
            if r_.get("class") != "CachedModel":
                # the call compiled and wrote cache file and libraries: what the next process loads from them is part
                # of the history (a compile returns the model it compiled, not what it stored)
                r2_ = c19.run_worker(self.mdir, dict(self.opts, codegen=True), self.version)
                if "exception" in r2_:
                    return ("C20:codegen:reload-raises:%s" % r2_["exception"], "transfer_model(codegen) right after a compiling call raised %s: %s" % (r2_["exception"], r2_.get("message")))
                sig_reload = r2_["signature"]
                self.ctx.cover("mode:codegen:reload-after-compile:" + r2_.get("class", "?"))

            class _G:
                pass
            got = _G()
            got.__class__.__name__ = r_.get("class", "Model")
            self.ctx.cover("mode:codegen")
        else:
            try:
                got = api.transfer_model(self.mdir, self.name, dict(opts))
                sig = cachecmp.signature(got)
                sig_reload = None
            except Exception as e:
                # a combination of options under which the sources do not compile at all (today: expand_vectors
                # with iterative_simplification) is outside the property: ask the uncached compiler
                try:
                    probe = os.path.join(self.root, "probe")
                    shutil.rmtree(probe, ignore_errors=True)
                    os.makedirs(probe)
                    self.copy_sources(probe)
                    api.transfer_model(probe, self.name, dict(self.opts, expand_mx=True))
                except Exception as e2:
                    if type(e2) is type(e):
                        self.ctx.discard("sources-do-not-compile-under-these-options:" + type(e).__name__)
                        return "stop"
                finally:
                    shutil.rmtree(os.path.join(self.root, "probe"), ignore_errors=True)
                return ("C20:transfer-raises:%s" % exc_sig(e), "transfer_model raised %r" % (e,))
        if type(got).__name__ == "CachedModel":
            self.ctx.monitor("cache_hits_observed")
            if self.dirty_since_transfer and had_cache:
                self.ctx.cover("cache-hit-after-a-change (must still equal the fresh compile)")
        self.stamp_cache_files()
        # reference: uncached compile of the current sources and options, in a scratch copy of the sources
        ref_dir = os.path.join(self.root, "ref")
        shutil.rmtree(ref_dir, ignore_errors=True)
        os.makedirs(ref_dir)
        self.copy_sources(ref_dir)
        try:
            ref = api.transfer_model(ref_dir, self.name, dict(self.opts, expand_mx=True) if self.mode == "cache" else dict(self.opts))
            sig_ref = cachecmp.signature(ref)
        except Exception as e:
            self.ctx.discard("reference-compile-fails:" + type(e).__name__)
            return "stop"
        finally:
            shutil.rmtree(ref_dir, ignore_errors=True)
        self.ctx.monitor("transfers_compared")
        d = cachecmp.first_difference(sig_ref, sig)
        if not d and self.mode == "codegen" and sig_reload is not None:
            d = cachecmp.first_difference(sig_ref, sig_reload)
            if d:
                d = "(model loaded by the next process) " + d
        last_change = next((o for o in reversed(self.ops[:-1]) if o[0] != "transfer"), ["none"])
        self.dirty_since_transfer = False
        if d:
            return ("C20:stale-model-returned:after-%s" % last_change[0],
                    "transfer_model returned a %s that differs from compiling the current sources/options at %s" % (type(got).__name__, d))
        return None


def one(ctx, rng, k, mode="cache"):
    root = os.path.join(ctx.work, "c20_%d" % k)
    shutil.rmtree(root, ignore_errors=True)
    os.makedirs(root)
    import pymoca
    import pymoca.backends.casadi.api as api
    saved = (pymoca.__version__, api.__version__)
    try:
        w = World(ctx, rng, root, mode)
        n = rng.randint(3, 8) if mode == "cache" else rng.randint(2, 3)
        bad = w.op_transfer("cache")
        i = 0
        while bad is None and i < n:
            bad = w.step()
            i += 1
            if mode == "codegen" and bad is None and w.ops[-1][0] != "transfer":
                # compiling is expensive: every change is followed by a transfer at once (change, transfer, change, ...)
                bad = w.op_transfer("cache")
        if bad is None:
            bad = w.step(force_transfer=True)
        changes = any(o[0] != "transfer" for o in w.ops)
        ctx.case({"ops": w.ops}, changes, {"history": w.ops} if k < 2 else None)
        if bad and bad != "stop":
            ctx.violation(bad[0], "%s\nhistory: %s\noptions: %s" % (bad[1], w.ops, {k_: v for k_, v in w.opts.items() if k_ != "library_folders"}),
                          {"ops": w.ops})
    finally:
        pymoca.__version__, api.__version__ = saved
        shutil.rmtree(root, ignore_errors=True)


def run_shard(ctx):
    logging.disable(logging.CRITICAL)
    for k in range(ctx.n(200, 8000)):
        if ctx.out_of_time():
            break
        # one code-generation history on some shards in quick, more in thorough
        # (quick: shards 0-5 only; compiling four libraries per call leaves little of the budget for anything else)
        mode = "codegen" if k < ((1 if ctx.shard < 6 else 0) if ctx.quick() else 10) else "cache"
        ctx.guarded(one, ctx, ctx.rng, k, mode, timeout=900)


def replay(ctx, case):
    logging.disable(logging.CRITICAL)
    ctx.inconclusive("C20 replay: re-run the check with the recorded seed; the replay file lists the operation history")
