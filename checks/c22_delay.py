"""C22 - delay durations are validated and delay arguments preserved.

Monitor at the transfer_model boundary: generated models with delay() calls whose duration expressions
draw on each variable category; the reference knows which categories a duration really depends on
(no cancelling terms are generated).  Accept/reject must match, and for accepted models the
delay-argument function must return every (delayed expression, duration) pair."""
import logging
import os
import shutil

import numpy as np

from vf import adapters, mexpr
from vf.genflat import idx, num, var
from vf.worker import exc_sig

LEVEL = "exploration"
RULE = ("generated models with 1-3 delay() calls (inside and outside for-loops, with and without expand_vectors) "
        "whose durations depend on literal/constant/parameter/fixed input/non-fixed input/algebraic/state/"
        "derivative/time, singly and mixed, and pairs of durations differing beyond the sixth significant digit; distinct = digest of (model text, options); non-trivial = every model "
        "(each has >=1 delay with a category-specific duration)")
ASSUMPTIONS = ["duration expressions contain no cancelling terms, so syntactic dependence = functional dependence",
               "(expression, duration) pairs are compared as a multiset: the order of delay arguments is not part of the property"]
REQUIRED_MONITORS = ["accepted_models", "rejected_models", "delay_argument_pairs"]
BUDGET = {"quick": 40, "thorough": 600}

ALLOWED = {"literal", "constant", "parameter", "fixed-input", "parameter-array-element"}
CATS = {
    # elements of arrays (replaced by scalars under expand_vectors) and a variable that is an alias of an algebraic
    # variable (replaced under detect_aliases): symbols that may occur in a duration and nowhere in a delayed expression
    "parameter-array-element": lambda r: idx("pv", r.randint(1, 2)),
    "state-array-element": lambda r: idx("sv", r.randint(1, 2)),
    "input-array-element": lambda r: idx("uv", r.randint(1, 2)),
    "alias-of-algebraic": lambda r: var("dw"),
    "literal": lambda r: num(round(r.uniform(0.5, 5), 2)),
    "constant": lambda r: var("c1"),
    "parameter": lambda r: var("p1"),
    "fixed-input": lambda r: var("uf"),
    "input": lambda r: var("u1"),
    "algebraic": lambda r: var("a1"),
    "state": lambda r: var("s1"),
    "derivative": lambda r: ("der", var("s1")),
    "time": lambda r: var("time"),
}


def piecewise(rng):
    """durations that depend on a symbol only through a piecewise-constant operation (zero derivative)."""
    c = rng.choice([x for x in CATS if x != "literal"])
    e = CATS[c](rng)
    form = rng.choice(["if-condition", "floor", "ceil", "sign", "comparison-product"])
    p = var("p1")
    if form == "if-condition":
        d = ("if", [(("bin", ">", e, num(1.5)), p)], ("bin", "*", num(2), p))
    elif form == "floor":
        d = ("bin", "+", p, ("call", "floor", [("bin", "/", e, num(10))]))
    elif form == "ceil":
        d = ("bin", "+", p, ("call", "ceil", [("bin", "/", e, num(7))]))
    elif form == "sign":
        d = ("bin", "*", p, ("bin", "+", num(2), ("call", "sign", [e])))
    else:
        d = ("bin", "+", p, ("if", [(("bin", "<", e, num(2.5)), num(1))], num(3)))
    return d, {c, "parameter"}, form


def duration(rng):
    """-> (expr, set of categories)"""
    k = rng.random()
    if k < 0.2:
        d, cats, form = piecewise(rng)
        duration.last_form = form
        return d, cats
    duration.last_form = None
    if k < 0.55:
        c = rng.choice(list(CATS))
        e = CATS[c](rng)
        if rng.random() < 0.5:
            e = ("bin", rng.choice("*+"), num(rng.randint(2, 6)), e)
        return e, {c}
    cs = rng.sample(list(CATS), 2) if rng.random() < 0.5 else rng.sample(sorted(ALLOWED), 2)
    e = ("bin", rng.choice("+*"), CATS[cs[0]](rng), ("bin", "+", CATS[cs[1]](rng), num(1)))
    return e, set(cs)


def gen_case(rng):
    tags = set()
    n = rng.randint(2, 3)
    decls = ["  Real x1, x2, a1, s1;", "  Real v[%d], w[%d];" % (n, n), "  input Real u1;",
             "  input Real uf(fixed = true);", "  parameter Real p1 = 2.5;", "  constant Real c1 = 1.5;",
             "  parameter Real pv[2] = {1.5, 2.5};", "  Real sv[2];", "  input Real uv[2];", "  Real dw;"]
    eqs = ["  der(s1) = -s1 + u1;", "  a1 = 2 * s1 + uf;", "  der(sv) = {1, 2};", "  dw = a1;"]
    delays = []          # (expr, dur, cats, loop or None)
    nd = rng.randint(1, 3)
    ycount = 0
    near = None
    if rng.random() < 0.15:
        # two durations that differ but print alike with six significant digits
        nd = 2
        near = rng.choice([(3600.0, 3600.001), (0.25, 0.2500001), (86400.75, 86400.751), (1.5, 1.5000004)])
        near_shape = rng.choice(["literal", "literal*parameter", "parameter+literal"])
        tags.add("durations:differ-beyond-the-sixth-significant-digit")
    for k in range(nd):
        dur, cats = duration(rng)
        if near:
            duration.last_form = None
            dur, cats = {"literal": (num(near[k]), {"literal"}),
                         "literal*parameter": (("bin", "*", num(near[k]), var("p1")), {"literal", "parameter"}),
                         "parameter+literal": (("bin", "+", var("p1"), num(near[k])), {"literal", "parameter"})}[near_shape]
        if rng.random() < 0.3 and not near:
            # inside a for-loop: delayed expression indexed by the loop variable
            inner = ("bin", "*", idx("v", var("i")), rng.choice([var("p1"), num(3), var("c1")]))
            eqs.append("  for i in 1:%d loop\n    w[i] = delay(%s, %s);\n  end for;" % (n, mexpr.to_text(inner), mexpr.to_text(dur)))
            delays.append((inner, dur, cats, n))
            tags.add("delay:in-for-loop")
            decls_w = True
            break_after = True
        else:
            g = mexpr.Gen(rng, [var("x1"), var("x2"), var("a1"), var("s1"), var("p1")], [], funcs1=("sin", "cos"),
                          funcs2=(), allow_if=False, arith=("+", "-", "*"))
            inner = g.real(rng.randint(1, 2)) if rng.random() < 0.6 else var(rng.choice(["x1", "s1", "a1"]))
            if not mexpr.vars_in(inner):
                inner = ("bin", "+", inner, var("x2"))
            ycount += 1
            decls.append("  Real y%d;" % ycount)
            eqs.append("  y%d = delay(%s, %s);" % (ycount, mexpr.to_text(inner), mexpr.to_text(dur)))
            delays.append((inner, dur, cats, None))
            tags.add("delay:plain")
            break_after = False
        for c in cats:
            tags.add("duration:" + c)
        if getattr(duration, "last_form", None):
            tags.add("duration-piecewise:" + duration.last_form)
        if break_after:
            break
    expect_ok = all(c <= ALLOWED for (_, _, c, _) in delays)
    text = "model M\n" + "\n".join(decls) + "\nequation\n" + "\n".join(eqs) + "\nend M;\n"
    options = {}
    if rng.random() < 0.3:
        options["cache"] = True
        tags.add("option:cache(repeated calls)")
    if rng.random() < 0.25:
        options["detect_aliases"] = True
        tags.add("option:detect_aliases")
    if rng.random() < 0.4:
        options["expand_vectors"] = True
        tags.add("option:expand_vectors")
        if rng.random() < 0.5:
            options["expand_mx"] = True
            tags.add("option:expand_mx")
    return text, delays, expect_ok, options, tags, n


def point(rng, n):
    env = {"time": round(rng.uniform(0.5, 3), 3)}
    for nm in ("x1", "x2", "a1", "s1", "u1", "uf", "p1", "c1"):
        env[nm] = round(rng.uniform(0.5, 4), 3)
    for k in range(1, 4):
        env["y%d" % k] = round(rng.uniform(0.5, 4), 3)
    env["der(s1)"] = round(rng.uniform(-2, 2), 3)
    for nm in ("v", "w"):
        env[nm] = np.array([round(rng.uniform(0.5, 4), 3) for _ in range(n)])
    for nm in ("pv", "sv", "uv"):
        env[nm] = np.array([round(rng.uniform(0.5, 4), 3) for _ in range(2)])
    env["der(sv)"] = np.array([1.0, 2.0])
    env["dw"] = env["a1"]
    return env


def full_point(model, env, rng):
    """add values for generated symbols (delay states, expanded scalars) by name."""
    pt = dict(env)
    for l in (model.states, model.der_states, model.alg_states, model.inputs, model.constants, model.parameters):
        for v in l:
            nm = v.symbol.name()
            if nm in pt:
                continue
            base = nm
            # expanded scalar "v[2]" / "der(x)[..]"
            if "[" in nm and nm.split("[")[0] in env and not nm.startswith("_pymoca_delay"):
                b, ix = nm.split("[", 1)
                ii = [int(t) - 1 for t in ix.rstrip("]").split(",")]
                pt[nm] = float(np.asarray(env[b])[tuple(ii)])
            else:
                pt[nm] = np.array([round(rng.uniform(0.5, 4), 3) for _ in range(v.symbol.numel())]).reshape(
                    v.symbol.size1(), v.symbol.size2())
    return pt


def check(ctx, text, delays, expect_ok, options, tags, n, rng, k):
    from pymoca.backends.casadi import api
    case = {"text": text, "expect_ok": expect_ok, "options": options, "tags": sorted(tags), "n": n,
            "delays": [(d[0], d[1], sorted(d[2]), d[3]) for d in delays]}
    folder = os.path.join(ctx.work, "c22_%d" % k)
    os.makedirs(folder, exist_ok=True)
    try:
        with open(os.path.join(folder, "M.mo"), "w") as f:
            f.write(text)
        err = None
        # with the cache option the verdict must be the same on every call (a rejected model must not
        # leave anything behind that a later call accepts)
        for attempt in range(3 if options.get("cache") else 1):
            err = None
            try:
                model = api.transfer_model(folder, "M", dict(options))
                fdel = model.delay_arguments_function
            except Exception as e:
                err = e
            if attempt == 0:
                first_err = err
            elif (err is None) != (first_err is None):
                ctx.violation("C22:verdict-changes-on-repeated-call:%s" % ("accepted-later" if err is None else "rejected-later"),
                              "call 1 %s, call %d %s (cache option)\n%s" % (
                                  "accepted" if first_err is None else "raised %r" % (first_err,), attempt + 1,
                                  "accepted" if err is None else "raised %r" % (err,), text), case)
                return
    finally:
        shutil.rmtree(folder, ignore_errors=True)
    bad_cats = sorted({c for d in delays for c in d[2] if c not in ALLOWED})
    if not expect_ok:
        ctx.monitor("rejected_models")
        if err is not None:
            ctx.cover("rejected-with:" + type(err).__name__)
        if err is None:
            ctx.violation("C22:accepted-invalid-duration:%s" % "+".join(bad_cats),
                          "model accepted although a delay duration depends on %s\n%s" % (bad_cats, text), case)
        return
    ctx.monitor("accepted_models")
    if err is not None:
        ctx.violation("C22:rejected-valid-duration:%s" % exc_sig(err),
                      "model rejected (%r) although all durations depend only on %s\n%s" % (
                          err, sorted({c for d in delays for c in d[2]}), text), case)
        return
    names = [v.symbol.name() for v in model.inputs]
    for ds in model.delay_states:
        if ds not in names:
            ctx.violation("C22:delay-state-not-an-input", "delay state %s is not among the inputs %s\n%s" % (ds, names, text), case)
            return
    for _ in range(3):
        env = point(rng, n)
        pt = full_point(model, env, rng)
        try:
            out = adapters.call_function(fdel, adapters.model_args(model, pt))
        except Exception as e:
            ctx.violation("C22:delay-arguments-function-raises:%s" % type(e).__name__,
                          "delay_arguments_function raised %r\n%s" % (e, text), case)
            return
        got = []
        for ex, du in zip(out[::2], out[1::2]):
            exv = ex.reshape(-1)
            duv = du.reshape(-1)
            for j in range(exv.size):
                got.append((float(exv[j]), float(duv[0] if duv.size == 1 else duv[j])))
        exp = []
        try:
            for inner, dur, cats, loop in delays:
                if loop is None:
                    exp.append((float(mexpr.evaluate(inner, env)), float(mexpr.evaluate(dur, env))))
                else:
                    for i in range(1, loop + 1):
                        e2 = dict(env, i=i)
                        exp.append((float(mexpr.evaluate(inner, e2)), float(mexpr.evaluate(dur, e2))))
        except mexpr.Undefined:
            continue
        ctx.monitor("delay_argument_pairs", len(exp))
        # the model object's own delay_arguments (expression, duration) must say the same as the function
        try:
            import casadi as ca
            syms, vals = [model.time], [ca.DM(pt["time"])]
            for lst in ("states", "der_states", "alg_states", "inputs", "parameters", "constants"):
                for v in getattr(model, lst):
                    syms.append(v.symbol)
                    vals.append(ca.DM(np.asarray(pt[v.symbol.name()], dtype=float)))
            got2 = []
            for arg in model.delay_arguments:
                f = ca.Function("d", syms, [ca.MX(arg.expr), ca.MX(arg.duration)], {"allow_free": False})
                o = f.call(vals)
                exv, duv = np.array(o[0], dtype=float).reshape(-1), np.array(o[1], dtype=float).reshape(-1)
                for j in range(exv.size):
                    got2.append((float(exv[j]), float(duv[0] if duv.size == 1 else duv[j])))
            ctx.monitor("delay_argument_objects_compared", len(got2))
            same = len(got2) == len(exp) and all(
                abs(a[0] - b[0]) <= 1e-9 * max(1, abs(a[0])) and abs(a[1] - b[1]) <= 1e-9 * max(1, abs(a[1]))
                for a, b in zip(sorted(got2), sorted(exp)))
        except Exception as e:
            ctx.violation("C22:delay-arguments-attribute-unusable:%s" % type(e).__name__,
                          "model.delay_arguments of the %s could not be evaluated: %r\n%s" % (type(model).__name__, e, text), case)
            return
        if not same:
            ctx.violation("C22:delay-arguments-attribute-mismatch:%s" % type(model).__name__,
                          "model.delay_arguments of the %s are %s, expected %s\n%s" % (type(model).__name__, sorted(got2), sorted(exp), text), case)
            return
        if len(got) != len(exp) or not all(
                abs(a[0] - b[0]) <= 1e-9 * max(1, abs(a[0])) and abs(a[1] - b[1]) <= 1e-9 * max(1, abs(a[1]))
                for a, b in zip(sorted(got), sorted(exp))):
            ctx.violation("C22:delay-arguments-mismatch%s" % (":expand_vectors" if options.get("expand_vectors") else ""),
                          "delay arguments (expr, duration) %s, expected %s\n%s" % (sorted(got), sorted(exp), text), case)
            return


def one(ctx, rng, k):
    text, delays, expect_ok, options, tags, n = gen_case(rng)
    ctx.case({"t": text, "o": options}, True, {"model": text, "options": options, "expect_accept": expect_ok} if k < 1 else None)
    for t in tags:
        ctx.cover(t)
    ctx.cover("expect:" + ("accept" if expect_ok else "reject"))
    check(ctx, text, delays, expect_ok, options, tags, n, rng, k)


def run_shard(ctx):
    logging.getLogger("pymoca").setLevel(logging.CRITICAL)
    for k in range(ctx.n(4000, 20000)):
        if ctx.out_of_time():
            break
        ctx.guarded(one, ctx, ctx.rng, k, timeout=30)


def replay(ctx, case):
    logging.getLogger("pymoca").setLevel(logging.CRITICAL)
    from checks.c03_expr_precedence import _retree
    delays = [(_retree(d[0]), _retree(d[1]), set(d[2]), d[3]) for d in case["delays"]]
    check(ctx, case["text"], delays, case["expect_ok"], case["options"], set(case["tags"]), case["n"], ctx.rng, 0)
