"""C03 - parsed expressions follow Modelica precedence and literal values.

Differential reference-model monitor on parser.parse: a generated reference tree is printed
(minimal or redundant parentheses), the text is parsed by the real parser (committed build and,
if it differs, the build regenerated from the working-tree grammar), the resulting AST is
converted structurally and both trees are evaluated at several points.  The value decides."""
import itertools

from vf import adapters, g4, mexpr
from vf.worker import exc_sig

LEVEL = "exploration"
RULE = ("random reference trees (depth<=6) + systematic (outer,inner,side) operator pairs + literal "
        "forms, each printed with minimal and with redundant parentheses and embedded in several "
        "syntactic positions; distinct = digest of (tree, position); non-trivial = >=2 operators of "
        "different precedence levels or a non-commutative operator twice (literal cases: every form "
        "counts)")
ASSUMPTIONS = ["the mexpr evaluator is the Modelica meaning of the generated subset",
               "the adapter converts pymoca AST nodes 1:1 (unknown node kinds make a case inconclusive)"]
REQUIRED_MONITORS = ["value_comparisons", "literal_comparisons"]
BUDGET = {"quick": 40, "thorough": 600}

REALS = ["a", "b", "c", "d", "e"]
BOOLS = ["p", "q", "r"]
ARITH = ["+", "-", "*", "/", "^", ".+", ".-", ".*", "./", ".^"]
RELS = ["<", "<=", ">", ">=", "==", "<>"]
NONCOMM = {"-", "/", "^", ".-", "./", ".^", "<", "<=", ">", ">="}


def points(rng, n):
    pts = []
    for _ in range(n):
        env = {v: round(rng.uniform(0.6, 6.5), 4) * rng.choice((1, 1, 1, -1)) for v in REALS}
        env.update({v: rng.random() < 0.5 for v in BOOLS})
        env["time"] = round(rng.uniform(0.5, 3), 3)
        env["v"] = [3.5, 1.25, 7.0, 2.0, 9.5, 4.0, 8.25, 6.0, 11.0, 5.5, 0.5, 10.0]
        pts.append(env)
    return pts


def nontrivial(tree):
    ops = mexpr.ops_in(tree)
    lv = set()
    for o in ops:
        lv.add(mexpr.LEVEL.get(o, {"neg": 5.5, "pos": 5.5, "not": 3, "if": 0}.get(o, 8)))
    if len(lv) >= 2:
        return True
    return any(ops.count(o) >= 2 for o in NONCOMM)


POSITIONS = ["rhs", "rhs", "rhs", "lhs", "if-eq-cond", "decl-value", "mod-start", "call-arg",
             "array-elem", "if-expr-cond", "subscript"]


def embed(pos, text, is_bool):
    """-> (model text, extractor(class)->pymoca node)"""
    head = "model M\n  Real a, b, c, d, e, x; Boolean p, q, r, y; Real v[12];\n"
    if pos == "rhs":
        var = "y" if is_bool else "x"
        return head + "equation\n  %s = %s;\nend M;\n" % (var, text), lambda c: c.equations[0].right
    if pos == "lhs":
        # simple_expression on the left: if-expressions are not allowed there
        return head + "equation\n  %s = x;\nend M;\n" % text, lambda c: c.equations[0].left
    if pos == "if-eq-cond":
        return (head + "equation\n  if %s then\n    x = 1;\n  else\n    x = 2;\n  end if;\nend M;\n" % text,
                lambda c: c.equations[0].conditions[0])
    if pos == "decl-value":
        return (head + "  parameter Real k = %s;\nend M;\n" % text,
                lambda c: c.symbols["k"].class_modification.arguments[0].value.modifications[0])
    if pos == "mod-start":
        return (head + "  Real z(start = %s);\nend M;\n" % text,
                lambda c: c.symbols["z"].class_modification.arguments[0].value.modifications[0])
    if pos == "call-arg":
        return (head + "equation\n  x = f(a, %s);\nend M;\n" % text,
                lambda c: c.equations[0].right.operands[1])
    if pos == "array-elem":
        return (head + "equation\n  v[1:2] = {%s, 1};\nend M;\n" % text,
                lambda c: c.equations[0].right.values[0])
    if pos == "if-expr-cond":
        return (head + "equation\n  x = if %s then 1 else 2;\nend M;\n" % text,
                lambda c: c.equations[0].right.conditions[0])
    if pos == "subscript":
        return (head + "equation\n  x = v[%s];\nend M;\n" % text,
                lambda c: c.equations[0].right.indices[0][0])
    raise ValueError(pos)


def compare_values(ctx, ref, got, pts, logic="bool"):
    """-> (n_compared, mismatch description or None)"""
    n = 0
    for env in pts:
        try:
            rv = mexpr.evaluate(ref, env, logic)
        except mexpr.Undefined as u:
            ctx.discard("point:" + str(u))
            continue
        except (TypeError, IndexError, ZeroDivisionError, OverflowError):
            ctx.discard("point:reference-error")
            continue
        try:
            gv = mexpr.evaluate(got, env, logic)
        except mexpr.Undefined:
            ctx.discard("point:parsed-undefined")
            continue
        except (TypeError, IndexError, ZeroDivisionError, OverflowError, KeyError) as e:
            return n + 1, "parsed tree fails to evaluate where the reference is defined: %r" % (e,)
        n += 1
        if isinstance(rv, bool) or isinstance(gv, bool):
            if bool(rv) != bool(gv) or isinstance(rv, bool) != isinstance(gv, bool):
                return n, "value %r != reference %r at %s" % (gv, rv, _short(env))
        elif not mexpr.close(rv, gv):
            return n, "value %r != reference %r at %s" % (gv, rv, _short(env))
    return n, None


def _short(env):
    return {k: v for k, v in env.items() if k != "v"}


def check_tree(ctx, builds, tree, is_bool, pos, rng, kind, keyhint):
    pts = points(rng, 7)
    for style in ("minimal", "redundant", "bare-sign"):
        if style == "bare-sign":
            # a sign directly after a binary operator (a / -b * c): accepted by the grammar, the sign binds tighter
            # than * and / and looser than ^
            text = mexpr.to_text(tree, rng, 0.0, p_bare_sign=1.0)
            if text == mexpr.to_text(tree):
                continue
            ctx.cover("text-style:sign-directly-after-binary-operator")
        else:
            text = mexpr.to_text(tree, rng, 0.0 if style == "minimal" else 0.35)
        src, extract = embed(pos, text, is_bool)
        for label, parse in builds:
            case = {"kind": kind, "tree": tree, "is_bool": is_bool, "pos": pos, "text": text,
                    "build": label, "style": style}
            try:
                t = parse(src, bypass_cache=True)
            except Exception as e:
                ctx.violation("C03:%s:parse-exception:%s" % (kind, exc_sig(e)),
                              "parse raised %r for %r" % (e, text), case)
                continue
            if t is None:
                ctx.violation("C03:%s:rejected:%s" % (kind, keyhint),
                              "valid expression rejected as syntax error: %r" % text, case)
                continue
            try:
                node = extract(t.classes["M"])
                got = adapters.to_mexpr(node)
            except adapters.Unknown as u:
                ctx.inconclusive("adapter: %s" % u)
                continue
            except Exception as e:
                ctx.violation("C03:%s:ast-shape:%s" % (kind, type(e).__name__),
                              "parsed AST has unexpected shape for %r: %r" % (text, e), case)
                continue
            n, bad = compare_values(ctx, tree, got, pts)
            ctx.monitor("value_comparisons", n)
            ctx.cover("build:" + label)
            if got != _norm(tree):
                ctx.cover("diag:shape-differs-from-reference")
            if bad:
                ctx.violation("C03:%s:value-mismatch:%s" % (kind, keyhint), "%s ; text %r" % (bad, text), case)
            if n == 0:
                ctx.discard("case:no-comparable-point")


def _norm(t):
    """reference tree in the adapter's normal form (json lists -> tuples irrelevant here)."""
    return t


def pair_cover(ctx, t, parent=None, side=None):
    k = t[0]
    if k == "bin":
        me = t[1]
        if parent:
            ctx.cover("pair:%s>%s:%s" % (parent, me, side))
        pair_cover(ctx, t[2], me, "L")
        pair_cover(ctx, t[3], me, "R")
    elif k in ("neg", "pos", "not"):
        if parent:
            ctx.cover("pair:%s>%s:%s" % (parent, k, side))
        pair_cover(ctx, t[1], k, "U")
    elif k == "if":
        for c, x in t[1]:
            pair_cover(ctx, c, "if", "C")
            pair_cover(ctx, x, "if", "B")
        pair_cover(ctx, t[2], "if", "B")
    elif k == "call":
        for a in t[2]:
            pair_cover(ctx, a, "call", "A")


# -- systematic operator pairs ---------------------------------------------------------------
def typed_ops():
    ops = []
    for o in ARITH:
        ops.append((o, "real", ("real", "real")))
    for o in RELS:
        ops.append((o, "bool", ("real", "real")))
    for o in ("and", "or"):
        ops.append((o, "bool", ("bool", "bool")))
    ops.append(("neg", "real", ("real",)))
    ops.append(("pos", "real", ("real",)))
    ops.append(("not", "bool", ("bool",)))
    return ops


def mk(op, args):
    if op in ("neg", "pos", "not"):
        return (op, args[0])
    return ("bin", op, args[0], args[1])


def systematic_pairs():
    leaves = {"real": [("var", v) for v in REALS], "bool": [("var", v) for v in BOOLS]}
    ops = typed_ops()
    out = []
    for (oo, ot, oargs) in ops:
        for side in range(len(oargs)):
            for (io, it, iargs) in ops:
                if it != oargs[side]:
                    continue
                li = iter(leaves["real"])
                lb = iter(leaves["bool"])

                def leaf(t):
                    return next(li) if t == "real" else next(lb)
                inner = mk(io, [leaf(t) for t in iargs])
                args = [inner if k == side else leaf(t) for k, t in enumerate(oargs)]
                tree = mk(oo, args)
                out.append((tree, ot == "bool", "%s>%s:%s" % (oo, io, "LR"[side] if len(oargs) == 2 else "U")))
    # triples for the classic traps
    a, b, c, d = (("var", v) for v in "abcd")
    p, q, r = (("var", v) for v in "pqr")
    extra = [
        (("bin", "-", ("bin", "-", a, b), c), False, "a-b-c"),
        (("bin", "/", ("bin", "/", a, b), c), False, "a/b/c"),
        (("neg", ("bin", "^", a, ("num", 2))), False, "-a^2"),
        (("bin", "-", a, ("bin", "*", b, c)), False, "a-b*c"),
        (("bin", "or", ("bin", "and", ("not", ("bin", "<", a, b)), q), r), True, "not a<b and q or r"),
        (("bin", "or", p, ("bin", "and", q, r)), True, "p or q and r"),
        (("bin", "*", ("bin", "/", a, b), c), False, "a/b*c"),
        (("bin", "-", ("bin", "+", ("neg", a), b), c), False, "-a+b-c"),
        (("bin", "^", ("bin", "^", a, ("num", 2)), ("num", 3)), False, "(a^2)^3"),
        (("bin", "^", a, ("bin", "^", ("num", 2), ("num", 3))), False, "a^(2^3)"),
        (("bin", "*", ("num", 2), ("bin", "^", a, ("num", 3))), False, "2*a^3"),
        (("bin", "==", ("bin", "+", a, b), ("bin", "*", c, d)), True, "a+b==c*d"),
        (("if", [(("bin", "<", a, b), ("bin", "+", a, ("num", 1)))], ("bin", "-", b, ("num", 1))), False, "if-expr"),
        (("bin", "+", ("num", 1), ("if", [(p, a)], b)), False, "1+(if)"),
        (("bin", "./", ("bin", ".*", a, b), ("bin", ".^", c, ("num", 2))), False, "a.*b./c.^2"),
    ]
    return out + extra


# -- literals ----------------------------------------------------------------------------------
def literal_cases(rng):
    cases = []
    ints = [0, 1, 7, 42, 1000, 2147483647, 2147483648, 9223372036854775807, 9223372036854775808,
            18446744073709551617, rng.randint(0, 10 ** 6), rng.randint(10 ** 9, 10 ** 12)]
    for i in ints:
        cases.append((str(i), i, int, "int"))
    reals = ["1.", "1.5", "0.25", "1e3", "1E3", "1.5E-3", "2.e2", "0.1e+2", "12.50", "3.0", "1e0",
             "6.02e23", "1.0e-10", "0.0", "123456.789", "%r" % round(rng.uniform(0, 100), 5),
             "%de%d" % (rng.randint(1, 9), rng.randint(-5, 5))]
    for s in reals:
        form = "real:" + ("exp" if ("e" in s or "E" in s) else "dot")
        cases.append((s, float(s), float, form))
    cases.append(("true", True, bool, "bool"))
    cases.append(("false", False, bool, "bool"))
    alphabet = [chr(i) for i in range(32, 127) if chr(i) not in '"\\']
    for _ in range(6):
        s = "".join(rng.choice(alphabet) for _ in range(rng.randint(0, 12)))
        cases.append(('"%s"' % s, s, str, "string"))
    cases.append(('"a // b /* c */ end M;"', "a // b /* c */ end M;", str, "string-with-comment-chars"))
    # escape sequences: the AST may keep the source spelling or decode it, but nothing else
    for raw, dec in (('say \\"hi\\"', 'say "hi"'), ('\\"', '"'), ('5 inch = 5\\"', '5 inch = 5"'), ('a\\\\', 'a\\'),
                     ('tab\\there', 'tab\there'), ('\\"lead', '"lead'), ('mid\\"dle', 'mid"dle'), ('q\\\\\\"', 'q\\"')):
        cases.append(('"%s"' % raw, (raw, dec), str, "string-with-escapes"))
    return cases


def check_literal(ctx, builds, text, value, typ, form, pos):
    src, extract = embed(pos, text, typ is bool)
    for label, parse in builds:
        case = {"kind": "literal", "text": text, "form": form, "pos": pos, "build": label}
        try:
            t = parse(src, bypass_cache=True)
        except Exception as e:
            ctx.violation("C03:literal:parse-exception:%s" % exc_sig(e), "parse raised %r for literal %s" % (e, text), case)
            continue
        if t is None:
            ctx.violation("C03:literal:rejected:%s" % form, "valid literal %s rejected" % text, case)
            continue
        try:
            node = extract(t.classes["M"])
            got = node.value
        except Exception as e:
            ctx.violation("C03:literal:ast-shape:%s" % form, "literal %s parsed to unexpected node: %r" % (text, e), case)
            continue
        ctx.monitor("literal_comparisons")
        ctx.cover("literal:" + form)
        if isinstance(value, tuple):
            # escape sequences: source spelling or decoded value are both "the exact value"
            if type(got) is not str or got not in value:
                ctx.violation("C03:literal:%s:wrong-value-or-type" % form,
                              "literal %s parsed as %r, expected %r (source spelling) or %r (decoded)" % (text, got, value[0], value[1]), case)
            continue
        if type(got) is not typ or got != value:
            ctx.violation("C03:literal:%s:wrong-value-or-type" % form,
                          "literal %s parsed as %r (%s), expected %r (%s)" % (
                              text, got, type(got).__name__, value, typ.__name__), case)


# -- shard ---------------------------------------------------------------------------------------
def prepare(prepdir, tier):
    g4.parser_builds(prepdir)


def run_shard(ctx):
    builds, info = g4.parser_builds(ctx.prep)
    ctx.extra.update({"parser_builds": [b[0] for b in builds], **info})
    rng = ctx.rng
    # systematic part, striped over shards
    sysp = systematic_pairs()
    for i, (tree, is_bool, hint) in enumerate(sysp):
        if i % ctx.nshards != ctx.shard:
            continue
        for pos in ("rhs", "if-expr-cond" if is_bool else "call-arg"):
            ctx.case({"sys": hint, "pos": pos}, True,
                     {"text": mexpr.to_text(tree), "position": pos, "kind": "systematic"})
            pair_cover(ctx, tree)
            ctx.guarded(check_tree, ctx, builds, tree, is_bool, pos, rng, "pair", hint)
    # literals
    if True:
        lits = literal_cases(ctx.subrng("lit"))
        for i, (text, value, typ, form) in enumerate(lits):
            if i % ctx.nshards != ctx.shard:
                continue
            for pos in ("rhs", "decl-value", "call-arg", "array-elem"):
                ctx.case({"lit": text, "pos": pos}, True, None)
                ctx.guarded(check_literal, ctx, builds, text, value, typ, form, pos)
    # random part
    n = ctx.n(5000, 300000)
    for k in range(n):
        if ctx.out_of_time():
            break
        is_bool = rng.random() < 0.3
        g = mexpr.Gen(rng, [("var", v) for v in REALS], [("var", v) for v in BOOLS],
                      funcs1=("sin", "cos", "exp", "sqrt", "abs", "log", "tanh"),
                      arith=("+", "-", "*", "/", "^"), rels=tuple(RELS), elementwise=True)
        depth = rng.randint(2, 6)
        tree = g.boolean(depth) if is_bool else g.real(depth)
        if is_bool:
            pos = rng.choice(["rhs", "if-eq-cond", "if-expr-cond", "call-arg"])
        else:
            pos = rng.choice(POSITIONS[:4] + ["decl-value", "mod-start", "call-arg", "array-elem"])
        if pos == "lhs" and "if" in mexpr.ops_in(tree) and tree[0] == "if":
            pos = "rhs"
        nt = nontrivial(tree)
        ctx.case({"t": tree, "pos": pos}, nt,
                 {"text": mexpr.to_text(tree), "position": pos, "kind": "random"} if k < 2 else None)
        pair_cover(ctx, tree)
        ctx.cover("position:" + pos)
        ctx.guarded(check_tree, ctx, builds, tree, is_bool, pos, rng, "random", "tree")
    # integer-valued subscript expressions
    for k in range(ctx.n(200, 5000)):
        if ctx.out_of_time():
            break
        a, b = rng.randint(1, 3), rng.randint(1, 3)
        tree = rng.choice([("bin", "+", ("num", a), ("num", b)), ("bin", "*", ("num", a), ("num", b)),
                           ("bin", "-", ("bin", "+", ("num", a + 3), ("num", b)), ("num", 2)),
                           ("bin", "+", ("num", a), ("bin", "*", ("num", 2), ("num", b)))])
        ctx.case({"sub": tree}, True, None)
        ctx.cover("position:subscript")
        ctx.guarded(check_tree, ctx, builds, tree, False, "subscript", rng, "subscript", "tree")


def _tuplify(x):
    if isinstance(x, list):
        return tuple(_tuplify(i) for i in x)
    return x


def _retree(x):
    """json round trip turns tuples into lists; rebuild node tuples (argument lists stay lists)."""
    if isinstance(x, list):
        if x and isinstance(x[0], str) and x[0] in ("num", "bool", "str", "var", "idx", "neg", "pos",
                                                  "not", "bin", "if", "call", "der", "arr", "slice", "colon"):
            t = x[0]
            if t == "if":
                return ("if", [(_retree(c), _retree(e)) for c, e in x[1]], _retree(x[2]))
            if t in ("call",):
                return ("call", x[1], [_retree(a) for a in x[2]])
            if t == "arr":
                return ("arr", [_retree(a) for a in x[1]])
            if t == "idx":
                return ("idx", x[1], [_retree(a) for a in x[2]])
            return tuple(_retree(i) for i in x)
        return [_retree(i) for i in x]
    return x


def replay(ctx, case):
    builds, info = g4.parser_builds(ctx.prep)
    builds = [b for b in builds if b[0] == case.get("build")] or builds
    if case["kind"] == "literal":
        lits = {c[0]: c for c in literal_cases(ctx.subrng("lit"))}
        text = case["text"]
        if text in lits:
            _, value, typ, form = lits[text]
        else:
            value, typ, form = None, None, case["form"]
            return
        check_literal(ctx, builds, text, value, typ, form, case["pos"])
    else:
        check_tree(ctx, builds, _retree(case["tree"]), case["is_bool"], case["pos"], ctx.rng,
                   case["kind"], "replay")
