"""C10 - generated CasADi model classifies every variable exactly once.

Reference-model monitor on casadi.generator.generate: the generator knows each variable's prefixes,
type and whether it is differentiated; the model's seven variable lists, der_states and outputs are
compared with the reference classification by the property's precedence."""
import logging

from vf import mexpr
from vf.worker import exc_sig

LEVEL = "exploration"
RULE = ("generated models mixing prefixes (none/constant/parameter/input/output/discrete, and prefix pairs) "
        "x types (Real/Integer/Boolean/String) with der() on a variable, inside an expression, on a nested "
        "component's variable and only in an initial equation; distinct = digest of model text; non-trivial = "
        ">=3 different (prefix,type) combinations and >=1 differentiated variable")
ASSUMPTIONS = ["declaration order is only compared for single-class models (for hierarchies Symbol.order is "
               "the declaring class's counter and the property does not define a global order)"]
REQUIRED_MONITORS = ["models_classified", "order_checks", "der_state_checks"]
BUDGET = {"quick": 40, "thorough": 600}

PREFIXES = [[], [], [], ["parameter"], ["constant"], ["input"], ["output"], ["discrete"]]
PAIRS = [["parameter", "input"], ["constant", "output"], ["discrete", "input"], ["parameter", "output"],
         ["discrete", "output"], ["constant", "input"]]
ORDERED = ["flow", "discrete", "parameter", "constant", "input", "output"]


def lit(typ, rng):
    if typ == "Real":
        return "%s" % round(rng.uniform(0.5, 9), 2)
    if typ == "Integer":
        return str(rng.randint(1, 9))
    if typ == "Boolean":
        return rng.choice(["true", "false"])
    return '"s%d"' % rng.randint(0, 99)


def gen_case(rng):
    """-> text, reference dict, tags, flat (bool single class)"""
    tags = set()
    use_pair = rng.random() < 0.15
    nested = rng.random() < 0.3
    nvar = rng.randint(3, 9)
    decls, ref = [], {k: [] for k in ("states", "alg_states", "inputs", "parameters", "constants",
                                        "string_parameters", "string_constants")}
    outputs = []
    reals_free = []       # plain Real variables that may be differentiated
    var_info = []
    for i in range(nvar):
        typ = rng.choice(["Real", "Real", "Real", "Integer", "Boolean", "String"])
        pf = list(rng.choice(PREFIXES))
        if use_pair and i == 0:
            pf = list(rng.choice(PAIRS))
            tags.add("ext:prefix-pair")
            typ = "Real"
        if typ == "String" and not (set(pf) & {"parameter", "constant"}):
            pf = [rng.choice(["parameter", "constant"])]
        name = "%s%d" % (rng.choice("abdfghkmnqrsuvw"), i)
        var_info.append((name, typ, pf))
    der_direct, der_expr, der_init, der_decl = set(), set(), set(), set()
    cands = [n for n, t, pf in var_info if t == "Real" and not (set(pf) & {"parameter", "constant", "input"})]
    rng.shuffle(cands)
    # a differentiated top-level input stays an input (precedence: input before state)
    der_inputs = [n for n, t, pf in var_info if t == "Real" and pf == ["input"] and rng.random() < 0.5]
    for n in cands:
        k = rng.random()
        if k < 0.3:
            der_direct.add(n)
        elif k < 0.4:
            der_init.add(n)
        elif k < 0.5:
            der_expr.add(n)
        elif k < 0.6:
            der_decl.add(n)
    if len(der_expr) == 1 and len(cands) >= 2:
        other = [c for c in cands if c not in der_expr]
        der_expr.add(other[0])
    if len(der_expr) == 1:
        der_direct |= der_expr
        der_expr = set()
    ders = der_direct | der_expr | der_init | der_decl
    for name, typ, pf in var_info:
        s = "  " + " ".join(pf) + (" " if pf else "") + typ + " " + name
        if set(pf) & {"parameter", "constant"}:
            s += " = " + lit(typ, rng)
        decls.append(s + ";")
        tags.add("decl:%s:%s" % ("+".join(pf) or "none", typ))
        is_str = typ == "String"
        if "constant" in pf:
            ref["string_constants" if is_str else "constants"].append(name)
        elif "parameter" in pf:
            ref["string_parameters" if is_str else "parameters"].append(name)
        elif "input" in pf:
            ref["inputs"].append(name)
        elif name in ders:
            ref["states"].append(name)
            if "output" in pf:
                outputs.append(name)
        else:
            ref["alg_states"].append(name)
            if "output" in pf:
                outputs.append(name)
    # variables whose only differentiation is in the declaration equation of another variable
    for n in sorted(der_decl):
        decls.append("  Real wb_%s = der(%s);" % (n, n))
        ref["alg_states"].append("wb_" + n)
        tags.add("der:only-in-declaration-binding")
    if rng.random() < 0.15:
        # an output array of size 0: it has no elements, is in no category and must not be listed as an output either
        decls.append("  parameter Integer nz = 0;")
        decls.append("  output Real yz[nz];")
        ref["parameters"].append("nz")
        tags.add("zero-size-output-array")
    eqs, ieqs = [], []
    for n in sorted(der_direct):
        eqs.append("  der(%s) = %s;" % (n, round(rng.uniform(-2, 2), 2)))
        tags.add("der:direct")
    if der_expr:
        l = sorted(der_expr)
        form = rng.choice(["sum", "time-product", "function"])
        if form == "sum":
            first = "  der(%s + 2 * %s) = 1;" % (l[0], l[1])
        elif form == "time-product":
            # the first reference inside der() is not a model variable
            first = "  der(time * %s + %s) = 1;" % (l[0], l[1])
        else:
            first = "  der(sin(%s) + %s) = 1;" % (l[0], l[1])
        tags.add("der:inside-expression:" + form)
        # these come before or after the plain der() equations
        block = [first if len(l) >= 2 else ""] + ["  der(%s * 3) = 0.5;" % extra for extra in l[2:]]
        if rng.random() < 0.5:
            eqs[:0] = block
        else:
            eqs += block
        tags.add("der:inside-expression")
    for n in sorted(der_init):
        ieqs.append("  der(%s) = 0;" % n)
        tags.add("der:only-in-initial-equation")
    for n in der_inputs:
        tgt = next((x for x, t, pf in var_info if t == "Real" and not pf), None)
        if tgt is not None:
            eqs.append("  %s = 2 * der(%s)%s;" % (tgt, n, " + der(%s + 1)" % n if rng.random() < 0.3 else ""))
            tags.add("der:of-top-level-input")
    for name, typ, pf in var_info:
        if name not in ders and typ == "Real" and not pf and rng.random() < 0.5:
            eqs.append("  %s = %s;" % (name, round(rng.uniform(-2, 2), 2)))
    pre = ""
    if nested:
        tags.add("nested-component")
        # component class with its own prefixes; input/output are stripped below the top level
        cv = []
        cder = []
        use_alias = rng.random() < 0.5
        for j in range(rng.randint(2, 4)):
            pf = list(rng.choice([[], [], ["input"], ["output"], ["parameter"], ["constant"], ["discrete"],
                                  ["discrete", "input"], ["discrete", "output"]]))
            nm = "z%d" % j
            cv.append((nm, pf))
        body = ""
        ctypes = {}
        for nm, pf in cv:
            ctypes[nm] = "TV" if use_alias and rng.random() < 0.6 else "Real"
            if ctypes[nm] == "TV":
                tags.add("nested-decl:alias-type:%s" % ("+".join(pf) or "none"))
            body += "  " + " ".join(pf) + (" " if pf else "") + ctypes[nm] + " " + nm
            if set(pf) & {"parameter", "constant"}:
                body += " = " + lit("Real", rng)
            body += ";\n"
        ceqs = ""
        for nm, pf in cv:
            if not (set(pf) & {"parameter", "constant"}) and rng.random() < 0.4:
                ceqs += "  der(%s) = 1;\n" % nm
                cder.append(nm)
                tags.add("der:nested-component-variable")
        pre = ("type TV = Real(unit = \"V\");\n\n" if use_alias else "") + "model C\n" + body + ("equation\n" + ceqs if ceqs else "") + "end C;\n\n"
        ninst = rng.randint(1, 2)
        for k in range(ninst):
            inst = "c%d" % (k + 1)
            decls.append("  C %s;" % inst)
            for nm, pf in cv:
                flat = inst + "." + nm
                if "constant" in pf:
                    ref["constants"].append(flat)
                elif "parameter" in pf:
                    ref["parameters"].append(flat)
                elif nm in cder:
                    ref["states"].append(flat)
                else:
                    ref["alg_states"].append(flat)
                tags.add("nested-decl:%s" % ("+".join(pf) or "none"))
    text = pre + "model M\n" + "\n".join(decls) + "\n"
    if ieqs:
        text += "initial equation\n" + "\n".join(ieqs) + "\n"
    if eqs:
        text += "equation\n" + "\n".join(e for e in eqs if e) + "\n"
    text += "end M;\n"
    ref["outputs"] = outputs
    return text, ref, tags, not nested


def names(vs):
    out = []
    for v in vs:
        out.append(v.symbol.name() if hasattr(v, "symbol") else v.name)
    return out


def check(ctx, text, ref, tags, single):
    from pymoca import parser
    from pymoca.backends.casadi import generator
    ext = sorted(t for t in tags if t.startswith("ext:"))
    feat = ext[0] if ext else ("nested" if not single else "core")
    case = {"text": text, "ref": ref, "tags": sorted(tags), "single": single}
    try:
        tree = parser.parse(text, bypass_cache=True)
        if tree is None:
            raise SyntaxError("generated text rejected")
        model = generator.generate(tree, "M", {})
    except Exception as e:
        ctx.violation("C10:%s:generate-raises:%s" % (feat, exc_sig(e)), "generation raised %r\n%s" % (e, text), case)
        return
    ctx.monitor("models_classified")
    got = {k: names(getattr(model, k)) for k in ("states", "alg_states", "inputs", "parameters", "constants",
                                                  "string_parameters", "string_constants")}
    where = {}
    for k, l in got.items():
        for n in l:
            where.setdefault(n, []).append(k)
    refwhere = {n: k for k, l in ref.items() if k != "outputs" for n in l}
    for n, ks in where.items():
        if len(ks) > 1:
            ctx.violation("C10:%s:duplicate" % feat, "%s appears in %s\n%s" % (n, ks, text), case)
            return
    for n, k in refwhere.items():
        if n not in where:
            ctx.violation("C10:%s:missing:%s" % (feat, k), "%s (expected in %s) is in no category\n%s" % (n, k, text), case)
            return
        if where[n][0] != k:
            ctx.violation("C10:%s:misclassified:%s-as-%s" % (feat, k, where[n][0]),
                          "%s expected in %s, found in %s\n%s" % (n, k, where[n][0], text), case)
            return
    for n in where:
        if n not in refwhere:
            ctx.violation("C10:%s:extra-variable" % feat, "%s is not a flat elementary variable\n%s" % (n, text), case)
            return
    # derivatives
    ctx.monitor("der_state_checks")
    dn = names(model.der_states)
    if dn != ["der(%s)" % s for s in got["states"]]:
        ctx.violation("C10:%s:der-states-mismatch" % feat, "der_states %s vs states %s\n%s" % (dn, got["states"], text), case)
        return
    if single:
        ctx.monitor("order_checks")
        for k in got:
            if got[k] != ref[k]:
                ctx.violation("C10:%s:order:%s" % (feat, k), "%s order %s, declaration order %s\n%s" % (k, got[k], ref[k], text), case)
                return
    outs = list(model.outputs)
    if sorted(outs) != sorted(ref["outputs"]):
        ctx.violation("C10:%s:outputs" % feat, "outputs %s, expected %s\n%s" % (outs, ref["outputs"], text), case)


def one(ctx, rng, k):
    text, ref, tags, single = gen_case(rng)
    combos = {t for t in tags if t.startswith("decl:")}
    nt = len(combos) >= 3 and any(t.startswith("der:") for t in tags)
    ctx.case(text, nt, {"model": text, "expected": ref} if k < 1 else None)
    for t in tags:
        ctx.cover(t)
    check(ctx, text, ref, tags, single)


def run_shard(ctx):
    logging.getLogger("pymoca").setLevel(logging.ERROR)
    for k in range(ctx.n(12000, 100000)):
        if ctx.out_of_time():
            break
        ctx.guarded(one, ctx, ctx.rng, k, timeout=30)


def replay(ctx, case):
    logging.getLogger("pymoca").setLevel(logging.ERROR)
    check(ctx, case["text"], case["ref"], set(case["tags"]), case["single"])
