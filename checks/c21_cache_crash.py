"""C21 - an interrupted or in-progress cache write never breaks later loads.

Fault-injection monitor at the transfer_model boundary:
 (a) crash inside save_model: builtins.open is wrapped (only for the model-cache file) by a writer that
     lets the first n bytes reach the real file and then raises SimulatedCrash(BaseException) - the file is
     left exactly as a killed process leaves it; n runs over write-call boundaries and byte offsets;
 (b) a real SIGKILL at the k-th write() system call on the cache path (strace -e inject) in a child process;
 (c) post-hoc damage of a complete cache file: truncation at byte offsets (all of them in thorough),
     zero length, garbage content, garbage tail;
 (d) reader/writer interleaving: a writer thread is paused inside its cache write after n bytes, a reader
     runs a complete transfer_model on the same folder, the writer resumes, a third call follows.
After every fault the next transfer_model(cache=True) must return (not raise) a model equal to a fresh
compile; so must the call after it."""
import builtins
import json
import logging
import os
import random
import shutil
import subprocess
import sys
import threading

from vf import cachecmp, gencache
from vf.worker import exc_sig, safe_garbage

LEVEL = "fault_enumeration"
RULE = ("per generated model: crash of the cache write after n bytes for n in {0, 1, every write-call boundary, "
        "sampled offsets, L-1} (quick: ~40 offsets per model, thorough: every offset), truncation of a complete cache "
        "file at the same offsets, zero-length / garbage / garbage-tail files, SIGKILL at the k-th write syscall in a "
        "child process, and reader/writer interleavings with the writer paused after n bytes; distinct = (model digest, "
        "fault kind, offset); non-trivial = every fault case (each is a distinct crash point)")
ASSUMPTIONS = ["the compile step is served from a per-source memo (the cache logic, save_model, load_model and the except "
               "clause of transfer_model run unmodified); 1 in 25 models runs with nothing memoised",
               "a crash is modelled as: the first n bytes of the cache file are on disk, nothing else of that call happened"]
REQUIRED_MONITORS = ["crash_points_injected", "truncations_injected", "recoveries_compared", "reader_writer_interleavings"]
BUDGET = {"quick": 60, "thorough": 1200}


class SimulatedCrash(BaseException):
    pass


REAL_OPEN = builtins.open


class CrashingWriter:
    def __init__(self, f, limit, pause=None):
        self.f, self.limit, self.written, self.pause = f, limit, 0, pause

    def write(self, b):
        b = bytes(b)
        room = self.limit - self.written
        if len(b) > room:
            self.f.write(b[:max(room, 0)])
            self.f.flush()
            self.written += max(room, 0)
            if self.pause is not None:
                reached, resume = self.pause
                reached.set()
                resume.wait(60)
                self.limit = 1 << 60            # the paused writer finishes its write afterwards
                self.f.write(b[max(room, 0):])
                self.written += len(b) - max(room, 0)
                return len(b)
            self.f.close()
            raise SimulatedCrash("crash after %d bytes" % self.written)
        self.written += len(b)
        return self.f.write(b)

    def __getattr__(self, n):
        return getattr(self.f, n)

    def __enter__(self):
        return self

    def __exit__(self, *a):
        return self.f.__exit__(*a)


class OpenPatch:
    """path-filtered wrapper of builtins.open: only binary writes to *.pymoca_cache (or its temp sibling) are touched."""

    def __init__(self, folder, limit, pause=None, only_thread=None):
        self.folder, self.limit, self.pause, self.only_thread = os.path.abspath(folder), limit, pause, only_thread
        self.hits = 0

    def __enter__(self):
        def patched(path, mode="r", *a, **k):
            f = REAL_OPEN(path, mode, *a, **k)
            try:
                if isinstance(path, int):
                    # a descriptor (e.g. from tempfile.mkstemp): resolve the file it refers to
                    p = os.path.realpath("/proc/self/fd/%d" % path)
                else:
                    p = os.path.abspath(os.fspath(path))
            except (TypeError, OSError):
                return f
            if ("w" in mode or "x" in mode or "a" in mode) and "b" in mode and ".pymoca_cache" in os.path.basename(p) \
                    and p.startswith(self.folder) and (self.only_thread is None or threading.get_ident() == self.only_thread):
                self.hits += 1
                return CrashingWriter(f, self.limit, self.pause)
            return f
        builtins.open = patched
        return self

    def __exit__(self, *a):
        builtins.open = REAL_OPEN


def cache_path(folder):
    return os.path.join(folder, "M.pymoca_cache")


def clean_cache(folder):
    for f in os.listdir(folder):
        if not f.endswith(".mo"):
            try:
                os.remove(os.path.join(folder, f))
            except OSError:
                pass


def offset_class(n, L):
    if n == 0:
        return "zero-bytes"
    if n >= L:
        return "complete"
    if n == L - 1:
        return "last-byte-missing"
    if n < 16:
        return "header-only"
    return "middle"


def structural_offsets(B, cap=60):
    """cut points at which a reader is most likely to be special: right after a byte that equals the pickle STOP
    opcode ('.'), the end of every top-level pickle in the file and every FRAME boundary (and 1-2 bytes past)."""
    import io
    import pickletools
    L = len(B)
    pts = set()
    pos = 0
    try:
        while pos < L and len(pts) < 4 * cap:
            stream = io.BytesIO(B[pos:])
            end = None
            for op, arg, p_ in pickletools.genops(stream):
                if op.name == "FRAME":
                    pts.update({pos + p_, pos + p_ + 9})
                if op.name == "STOP":
                    end = pos + p_ + 1
            if end is None:
                break
            pts.update({end, end + 1, end + 2})
            pos = end
    except Exception:
        pass
    dots = [i + 1 for i in range(L) if B[i] == 0x2E]
    step = max(1, len(dots) // cap)
    for i in dots[::step]:
        pts.update({i, i + 1})
    return {x for x in pts if 0 <= x < L}


def recover_and_compare(ctx, folder, sig_f, what, cls, case, calls=2):
    """the calls after the fault: must not raise, must equal the fresh compile."""
    from pymoca.backends.casadi import api
    for i in range(calls):
        try:
            mdl = api.transfer_model(folder, "M", {"cache": True})
            sig = cachecmp.signature(mdl)
        except Exception as e:
            ctx.violation("C21:%s:%s:next-transfer-raises:%s" % (what, cls, type(e).__name__),
                          "%s (%s): call %d after the fault raised %r" % (what, cls, i + 1, e), case)
            return False
        ctx.monitor("recoveries_compared")
        d = cachecmp.first_difference(sig_f, sig)
        if d:
            ctx.violation("C21:%s:%s:wrong-model-after-fault" % (what, cls),
                          "%s (%s): call %d after the fault returned a %s differing from a fresh compile at %s" % (
                              what, cls, i + 1, type(mdl).__name__, d), case)
            return False
    return True


def one_model(ctx, rng, k):
    from pymoca.backends.casadi import api
    m, text, tags = gencache.gen_model(rng, small=True)
    folder = os.path.join(ctx.work, "c21_%d" % k)
    shutil.rmtree(folder, ignore_errors=True)
    os.makedirs(folder)
    real_compile = getattr(api, "_compile_model", None)
    memo = {}
    unwrapped = (k % 25 == 24) or real_compile is None

    def memo_compile(model_folder, model_name, compiler_options):
        key = json.dumps({kk: vv for kk, vv in compiler_options.items() if kk != "library_folders"}, sort_keys=True, default=str)
        if key not in memo:
            memo[key] = real_compile(model_folder, model_name, compiler_options)
            ctx.monitor("real_compiles")
        else:
            ctx.monitor("memoised_compiles")
        return memo[key]
    try:
        with REAL_OPEN(os.path.join(folder, "M.mo"), "w") as f:
            f.write(text)
        os.utime(os.path.join(folder, "M.mo"), (1_500_000_000, 1_500_000_000))
        try:
            fresh = api.transfer_model(folder, "M", {"expand_mx": True})
            sig_f = cachecmp.signature(fresh)
            api.transfer_model(folder, "M", {"cache": True})
            with REAL_OPEN(cache_path(folder), "rb") as f:
                B = f.read()
        except Exception as e:
            ctx.discard("model-does-not-compile:" + type(e).__name__)
            return
        if not unwrapped:
            api._compile_model = memo_compile
        L = len(B)
        base = {"text": text, "cache_len": L}
        if ctx.quick():
            offs = sorted({0, 1, 2, 15, 16, L // 4, L // 2, (3 * L) // 4, L - 2, L - 1} | {rng.randrange(L) for _ in range(10)}
                          | structural_offsets(B))
        else:
            offs = list(range(0, L)) if k % 4 == 0 else sorted({0, 1, L // 2, L - 1} | {rng.randrange(L) for _ in range(60)})
        # (d) reader / writer interleavings (threads) - first: cheap, and must not be starved by the offset sweeps below
        for n in ([0, L // 2, L - 1] if ctx.quick() else [0, 1, L // 3, L // 2, L - 1]):
            if ctx.out_of_time():
                break
            clean_cache(folder)
            reached, resume = threading.Event(), threading.Event()
            res = {}

            def writer():
                try:
                    res["writer"] = ("ok", cachecmp.signature(api.transfer_model(folder, "M", {"cache": True})))
                except BaseException as e:
                    res["writer"] = ("exc", type(e).__name__ + ": " + str(e)[:200])
            t = threading.Thread(target=writer)
            case = dict(base, fault="reader-during-write", offset=n)
            with OpenPatch(folder, n, pause=(reached, resume), only_thread=None) as op:
                op.only_thread = None
                t.start()
                # only the writer thread's open() is wrapped: remember its id once it is running
                op.only_thread = t.ident
                got_there = reached.wait(120)
                if got_there:
                    try:
                        rm = api.transfer_model(folder, "M", {"cache": True})
                        res["reader"] = ("ok", cachecmp.signature(rm))
                    except Exception as e:
                        res["reader"] = ("exc", type(e).__name__ + ": " + str(e)[:200])
                resume.set()
                t.join(120)
            if not got_there:
                ctx.discard("writer-never-reached-its-cache-write")
                continue
            ctx.monitor("reader_writer_interleavings")
            ctx.cover("interleaving:writer-paused-at:" + offset_class(n, L))
            ctx.case({"t": text, "f": "rw", "n": n}, True,
                     {"fault": "reader runs while the writer is paused inside its cache write", "writer_paused_after_bytes": n, "cache_len": L} if not ctx.samples else None)
            for who in ("reader", "writer"):
                st, val = res.get(who, ("exc", "no result"))
                if st != "ok":
                    ctx.violation("C21:reader-writer:%s:%s-raises:%s" % (offset_class(n, L), who, val.split(":")[0]),
                                  "writer paused after %d of %d bytes: %s raised %s" % (n, L, who, val), case)
                    return
                d = cachecmp.first_difference(sig_f, val)
                if d:
                    ctx.violation("C21:reader-writer:%s:%s-wrong-model" % (offset_class(n, L), who),
                                  "writer paused after %d of %d bytes: %s got a model differing at %s" % (n, L, who, d), case)
                    return
            if not recover_and_compare(ctx, folder, sig_f, "after-reader-writer", offset_class(n, L), case, calls=1):
                return
        # (a) crash inside save_model after n bytes and (c) damage of a complete file, interleaved per offset so that
        # neither kind of fault is starved when the budget ends during a sweep over all offsets
        def crash_at(n):
            clean_cache(folder)
            case = dict(base, fault="crash-during-write", offset=n)
            ctx.case({"t": text, "f": "crash", "n": n}, True, {"fault": "crash during cache write", "after_bytes": n, "cache_len": L} if not ctx.samples else None)
            with OpenPatch(folder, n) as op:
                try:
                    api.transfer_model(folder, "M", {"cache": True})
                    crashed = False
                except SimulatedCrash:
                    crashed = True
            if not crashed:
                ctx.discard("crash-point-not-reached (the write goes elsewhere)")
                if op.hits == 0:
                    ctx.cover("cache-write-not-intercepted")
            else:
                ctx.monitor("crash_points_injected")
            ctx.cover("crash-offset:" + offset_class(n, L))
            left = [f_ for f_ in os.listdir(folder) if not f_.endswith(".mo")]
            ctx.cover("files-left-after-crash:%d" % len(left))
            return recover_and_compare(ctx, folder, sig_f, "crash-during-write", offset_class(n, L), case)

        def damage(kind, n):
            clean_cache(folder)
            if kind == "truncated":
                data, cls = B[:n], offset_class(n, L)
            elif kind == "garbage":
                data, cls = safe_garbage(rng, min(L, 2000)), "random-bytes"
            elif kind == "garbage-tail":
                data, cls = B + bytes(rng.randrange(256) for _ in range(50)), "complete-plus-tail"
            else:
                data, cls = b"this is not a pickle\n" * 20, "text"
            with REAL_OPEN(cache_path(folder), "wb") as f:
                f.write(data)
            os.utime(cache_path(folder), (1_600_000_000, 1_600_000_000))
            ctx.monitor("truncations_injected")
            ctx.cover("damage:%s:%s" % (kind, cls))
            ctx.case({"t": text, "f": kind, "n": n}, True, None)
            return recover_and_compare(ctx, folder, sig_f, "damaged-file:" + kind, cls, dict(base, fault=kind, offset=n))

        for kind in ("garbage", "garbage-tail", "text"):
            if ctx.out_of_time() or not damage(kind, 0):
                return
        for n in offs:
            if ctx.out_of_time():
                break
            if not crash_at(n) or not damage("truncated", n):
                return
    finally:
        if real_compile is not None:
            api._compile_model = real_compile
        builtins.open = REAL_OPEN
        shutil.rmtree(folder, ignore_errors=True)


def strace_kill(ctx, rng, k):
    """(b) a genuine SIGKILL at the k-th write syscall on the cache file, then a normal call."""
    from pymoca.backends.casadi import api
    if shutil.which("strace") is None:
        ctx.cover("strace-not-available")
        return
    m, text, tags = gencache.gen_model(rng, small=True)
    folder = os.path.join(ctx.work, "c21s_%d" % k)
    shutil.rmtree(folder, ignore_errors=True)
    os.makedirs(folder)
    try:
        with REAL_OPEN(os.path.join(folder, "M.mo"), "w") as f:
            f.write(text)
        try:
            sig_f = cachecmp.signature(api.transfer_model(folder, "M", {"expand_mx": True}))
        except Exception as e:
            ctx.discard("model-does-not-compile:" + type(e).__name__)
            return
        for when in (1, 2):
            clean_cache(folder)
            if when == 1:
                # kill at the first write() to the cache file itself (direct, non-atomic write)
                inj = ["-P", cache_path(folder), "-e", "trace=write", "-e", "inject=write:signal=KILL:when=1"]
            else:
                # kill at the rename that would publish a temporary file (atomic write)
                inj = ["-e", "trace=rename,renameat,renameat2", "-e", "inject=rename,renameat,renameat2:signal=KILL:when=1"]
            cmd = ["strace", "-f", "-qq", "-o", "/dev/null"] + inj + [
                   sys.executable, "-m", "vf.cacheworker", folder, "M", json.dumps({"cache": True})]
            p = subprocess.run(cmd, capture_output=True, text=True, timeout=600,
                               cwd=os.path.dirname(os.path.dirname(os.path.abspath(__file__))))
            killed = p.returncode in (-9, 137) or "@@RESULT@@" not in p.stdout
            ctx.cover("strace:child-%s:when=%d" % ("killed" if killed else "completed", when))
            if killed:
                ctx.monitor("sigkill_injections")
                size = os.path.getsize(cache_path(folder)) if os.path.exists(cache_path(folder)) else -1
                ctx.cover("strace:file-size-after-kill:%s" % ("absent" if size < 0 else "zero" if size == 0 else "partial"))
            ctx.case({"t": text, "f": "sigkill", "n": when}, True, None)
            if not recover_and_compare(ctx, folder, sig_f, "sigkill-at-write-syscall", "when-%d" % when,
                                       {"text": text, "fault": "sigkill", "when": when}):
                return
    finally:
        shutil.rmtree(folder, ignore_errors=True)


def run_shard(ctx):
    logging.disable(logging.CRITICAL)
    ctx.guarded(strace_kill, ctx, ctx.rng, 0, timeout=900)
    for k in range(ctx.n(48, 1600)):
        if ctx.out_of_time():
            break
        ctx.guarded(one_model, ctx, ctx.rng, k, timeout=1800)


def replay(ctx, case):
    logging.disable(logging.CRITICAL)
    ctx.inconclusive("C21 replay: re-run the check with the recorded seed; the replay file holds the model text, fault kind and offset")
