"""C14 - simplification preserves the DAE's solutions.

Monitor on Model.simplify over generated square nonsingular models with a known solution w*
(vf.gensolv), for option subsets from a covering design (every pair of the 12 simplification options
occurs; preconditions honoured):
 (S1) no solution lost    : the simplified residual vanishes at w* (restricted to the remaining unknowns);
 (S2) no solution gained  : the simplified system is still square in its unknowns and its Jacobian
                            with respect to them has full rank at w*;
 (S3) eliminations hold   : every recorded alias satisfies alias = sign * canonical at w*, every
                            variable moved to the constants has the value it has at w*.
An exception or a logged warning counts as reported failure, not as a violation."""
import logging

import numpy as np

from vf import adapters, gensolv, mexpr
from vf.worker import exc_sig

LEVEL = "exploration"
RULE = ("vf.gensolv models (affine diagonally dominant or triangular nonlinear systems with alias chains, signed "
        "aliases, constant assignments, eliminable variables, factored equations, if-equations, parameter "
        "expressions) x option subsets from a pairwise covering design over the 12 simplification options; distinct "
        "= digest of (model text, options); non-trivial = >=1 decoration (alias/constant/eliminable/if/factored) and "
        ">=2 options on")
ASSUMPTIONS = ["parameters and constants are fixed at their declared values",
               "a warning logged by pymoca during simplify ('conflict', 'exceeded', 'not balanced', ...) is a reported failure",
               "local uniqueness at w* (full-rank Jacobian of a square system) stands for 'no solution gained'"]
REQUIRED_MONITORS = ["simplify_runs", "s1_residual_checks", "s2_rank_checks", "s3_elimination_checks"]
BUDGET = {"quick": 50, "thorough": 800}


class Capture(logging.Handler):
    def __init__(self):
        super().__init__(level=logging.WARNING)
        self.msgs = []

    def emit(self, record):
        self.msgs.append(record.getMessage())


def compile_and_simplify(text, opts):
    """-> (model before simplify facts, simplified model, warnings) ; raises on generation error."""
    from pymoca import parser
    from pymoca.backends.casadi import generator
    tree = parser.parse(text, bypass_cache=True)
    if tree is None:
        raise SyntaxError("generated model rejected")
    gen_opts = {k: v for k, v in opts.items()}
    model = generator.generate(tree, "M", gen_opts)
    before = {
        "unknowns": sum(v.symbol.numel() for v in model.states + model.alg_states),
        "equations": sum(e.numel() for e in model.equations),
        "names": {k: [v.symbol.name() for v in getattr(model, k)] for k in
                  ("states", "der_states", "alg_states", "inputs", "parameters", "constants")},
    }
    cap = Capture()
    lg = logging.getLogger("pymoca")
    lg.addHandler(cap)
    old = lg.level
    lg.setLevel(logging.WARNING)
    try:
        model.simplify(gen_opts)
    finally:
        lg.removeHandler(cap)
        lg.setLevel(old)
    return before, model, cap.msgs


def jacobian_rank(model, pt):
    import casadi as ca
    F = model.dae_residual_function
    ins = [ca.MX.sym("i%d" % i, *F.size_in(i)) for i in range(F.n_in())]
    out = F.call(ins)
    if not out:
        return 0, 0, 0
    res = ca.vec(out[0])
    unk = ca.vertcat(ca.vec(ins[2]), ca.vec(ins[3]))
    J = ca.Function("J", ins, [ca.jacobian(res, unk)])
    args = adapters.model_args(model, pt)
    Jv = np.array(J.call([ca.DM(a) if len(a) else ca.DM.zeros(0, 1) for a in args])[0], dtype=float)
    if Jv.size == 0:
        return Jv.shape[0], Jv.shape[1], 0
    sv = np.linalg.svd(Jv, compute_uv=False)
    rk = int(np.sum(sv > 1e-8 * max(1.0, sv[0])))
    return Jv.shape[0], Jv.shape[1], rk


def monitor(ctx, g, text, opts, which=("S1", "S2", "S3"), prop="C14"):
    """run one simplify case; report violations for `prop`.  -> True if the case was decided."""
    exts = sorted(t for t in g.tags if t.startswith("ext:"))
    feat = exts[0] if exts else "core"
    on = sorted(k for k, v in opts.items() if v and k in gensolv.OPTIONS)
    case = {"text": text, "options": opts, "values": g.val, "tags": sorted(g.tags)}
    try:
        before, model, warns = compile_and_simplify(text, opts)
    except Exception as e:
        ctx.cover("reported-failure:exception:" + type(e).__name__)
        ctx.discard("reported-failure:exception")
        return False
    ctx.monitor("simplify_runs")
    bad_w = [w for w in warns if any(t in w.lower() for t in ("conflict", "exceeded", "not balanced", "limit"))]
    if bad_w:
        ctx.cover("reported-failure:warning")
        ctx.discard("reported-failure:warning")
        return False
    try:
        f = model.dae_residual_function
        fi = model.initial_residual_function
        fm = model.variable_metadata_function
        fd = model.delay_arguments_function
    except Exception as e:
        if prop == "C15":
            ctx.violation("C15:%s:residual-function-cannot-be-built:%s" % (feat, type(e).__name__),
                          "after simplify(%s) a model function cannot be constructed: %s\n%s" % (on, str(e)[:300], text), case)
        else:
            ctx.discard("functions-cannot-be-built (C15's subject)")
        return True
    # point: w* and the data, by name, for whatever variables remain
    pt = dict(g.val)
    try:
        pt = adapters.complete_point(model, pt)
        res = adapters.residual(model, pt)
    except KeyError as e:
        ctx.violation("%s:%s:unknown-variable-in-simplified-model" % (prop, feat),
                      "simplified model has a variable %s that the original does not have\n%s" % (e, text), case)
        return True
    n_unknown = sum(v.symbol.numel() for v in model.states + model.alg_states)
    n_eq = res.size
    if prop == "C15":
        ctx.monitor("balance_checks")
        d0 = before["unknowns"] - before["equations"]
        d1 = n_unknown - n_eq
        if d0 != d1:
            ctx.violation("C15:%s:balance-changed" % feat,
                          "unknowns - equations was %d (%d - %d), after simplify(%s) it is %d (%d - %d)\n%s" % (
                              d0, before["unknowns"], before["equations"], on, d1, n_unknown, n_eq, text), case)
        return True
    if "S1" in which:
        ctx.monitor("s1_residual_checks")
        if res.size and (not np.all(np.isfinite(res)) or np.max(np.abs(res)) > 1e-7):
            ctx.violation("C14:%s:S1-solution-lost" % feat,
                          "after simplify(%s) the known solution no longer satisfies the residual: max |r| = %s\n%s" % (
                              on, np.max(np.abs(res)) if np.all(np.isfinite(res)) else "non-finite", text), case)
            return True
    if "S2" in which:
        ctx.monitor("s2_rank_checks")
        rows, cols, rk = jacobian_rank(model, pt)
        if rk < cols:
            ctx.violation("C14:%s:S2-solutions-gained" % feat,
                          "after simplify(%s): %d equations, %d unknowns, Jacobian rank %d at the known solution "
                          "(the original system determines it uniquely)\n%s" % (on, rows, cols, rk, text), case)
            return True
    if "S3" in which:
        for canonical, aliases in model.alias_relation:
            for al in aliases:
                sign = -1.0 if al.startswith("-") else 1.0
                nm = al[1:] if al.startswith("-") else al
                if nm in g.val and canonical in g.val:
                    ctx.monitor("s3_elimination_checks")
                    if abs(g.val[nm] - sign * g.val[canonical]) > 1e-9:
                        ctx.violation("C14:%s:S3-alias-does-not-hold" % feat,
                                      "alias relation records %s = %s%s but the solution has %s = %s, %s = %s\n%s" % (
                                          nm, "-" if sign < 0 else "", canonical, nm, g.val[nm], canonical, g.val[canonical], text), case)
                        return True
        import casadi as ca
        for c in model.constants:
            nm = c.symbol.name()
            if nm in before["names"]["constants"] or nm not in g.val:
                continue
            ctx.monitor("s3_elimination_checks")
            try:
                v = float(ca.DM(c.value)) if not isinstance(c.value, ca.MX) else float(ca.DM(ca.evalf(c.value)))
            except Exception:
                continue
            if abs(v - g.val[nm]) > 1e-9:
                ctx.violation("C14:%s:S3-constant-value-wrong" % feat,
                              "%s was moved to the constants with value %s, the solution has %s\n%s" % (nm, v, g.val[nm], text), case)
                return True
    return True


def one(ctx, rng, k, prop="C14"):
    ext = "ext:contradictory-alias-signs" if rng.random() < 0.03 else None
    # two of the unknowns are sometimes the elements of an array (with or without expand_vectors)
    g = gensolv.SolvGen(rng, ext=ext, with_array=rng.random() < 0.15).build()
    text = g.text()
    opts = gensolv.option_subset(rng, k + ctx.shard * 1000, g.affine)
    if getattr(g, "late_alias", False) and rng.random() < 0.6:
        # the options under which the late alias is found by a second pass
        opts.update({"detect_aliases": True, "eliminate_constant_assignments": True, "replace_constant_values": True,
                     "iterative_simplification": True})
    if getattr(g, "want_aliases", False) and rng.random() < 0.6:
        opts["detect_aliases"] = True
        if rng.random() < 0.6:
            opts["replace_constant_values"] = opts["replace_parameter_values"] = False
    if getattr(g, "want_eliminable", False) and rng.random() < 0.6:
        opts["eliminable_variable_expression"] = r"_\w+"
        opts["expand_mx"] = True
    on = [o for o in gensolv.OPTIONS if opts.get(o)]
    deco = any(t.split(":")[0] in ("alias", "constant-assignment", "eliminable-variable", "if-equation", "factored-equation") for t in g.tags)
    ctx.case({"t": text, "o": opts}, deco and len(on) >= 2, {"model": text, "options_on": on} if k < 1 else None)
    for t in g.tags:
        ctx.cover(t)
    for o in on:
        ctx.cover("option:" + o)
    for a, b in [(x, y) for i, x in enumerate(on) for y in on[i + 1:]]:
        ctx.cover("pair:%s+%s" % (a, b))
    monitor(ctx, g, text, opts, prop=prop)


def run_shard(ctx):
    logging.getLogger("pymoca").setLevel(logging.ERROR)
    for k in range(ctx.n(4000, 40000)):
        if ctx.out_of_time():
            break
        ctx.guarded(one, ctx, ctx.rng, k, timeout=120)


def replay(ctx, case):
    logging.getLogger("pymoca").setLevel(logging.ERROR)

    class G:
        pass
    g = G()
    g.val, g.tags = case["values"], set(case["tags"])
    monitor(ctx, g, case["text"], case["options"], prop="C14")
