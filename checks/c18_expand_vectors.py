"""C18 - vector expansion is a faithful renaming to scalars.

Differential monitor on generate()+simplify(): each model is compiled without and with
expand_vectors (alone and together with expand_mx).  The expanded model's variable lists must be
the reference renaming of the unexpanded ones (1-based indices, a.b[i].c[j,k], derivative indices
inside der(...)), every scalar must carry the matching element of the array's attributes, outputs
and delay states must be renamed alike, and the expanded residuals at the renamed point must equal
the unexpanded residuals."""
import itertools
import logging

import numpy as np

from vf import adapters, mexpr
from vf.worker import exc_sig

LEVEL = "exploration"
RULE = ("generated models with 1-D and 2-D (non-square) arrays in every variable category, arrays of components "
        "holding arrays, derivatives of arrays, array-valued and scalar attributes, array outputs and delayed array "
        "expressions in for-loops, compiled without expand_vectors, with it, and with it plus expand_mx; distinct = "
        "digest of (model text); non-trivial = >=2 arrays of which one is 2-D, nested or differentiated")
ASSUMPTIONS = ["the unexpanded model is the reference (its own residual is checked against the Modelica meaning by C11)",
               "scalars are enumerated in row-major index order within each array, arrays in their original list order"]
REQUIRED_MONITORS = ["expanded_models", "scalar_names_compared", "attribute_elements_compared", "residual_points_compared"]
BUDGET = {"quick": 45, "thorough": 700}
ATTRS = ("start", "min", "max", "nominal")


def lit_array(rng, dims, lo=0, hi=9):
    if len(dims) == 1:
        return [round(rng.uniform(lo, hi), 1) for _ in range(dims[0])]
    return [[round(rng.uniform(lo, hi), 1) for _ in range(dims[1])] for _ in range(dims[0])]


def fmt(a):
    if isinstance(a, list):
        return "{" + ", ".join(fmt(x) for x in a) + "}"
    return repr(a)


def gen_case(rng):
    tags = set()
    ext = None
    n = rng.randint(2, 4)
    m2 = rng.choice([k for k in (2, 3, 4) if k != n] or [2])
    decls, eqs, pre = [], [], ""
    arrays = {}       # flat (unexpanded) name -> {"dims": [...per level...], "attrs": {attr: scalar|nested list}, "list": category}
    scal = {}

    def add(name, dims, cat, prefixes="", attrs=None, typ="Real", value=None):
        attrs = attrs or {}
        mods = ", ".join("%s = %s" % (a, fmt(v)) for a, v in attrs.items())
        decls.append("  %s%s %s[%s]%s%s;" % (prefixes + " " if prefixes else "", typ, name, ", ".join(map(str, dims)),
                                            "(" + mods + ")" if mods else "", " = " + fmt(value) if value is not None else ""))
        arrays[name] = {"dims": [list(dims)], "attrs": dict(attrs, **({"value": value} if value is not None else {})), "list": cat}

    def attrs_for(dims):
        out = {}
        for a in rng.sample(ATTRS, rng.randint(0, 2)):
            if rng.random() < 0.6:
                out[a] = lit_array(rng, dims)
                tags.add("attr:array-valued")
            else:
                out[a] = round(rng.uniform(0, 9), 1)
                tags.add("attr:scalar-on-array")
        return out
    # states / algebraics
    if rng.random() < 0.35:
        # an output that is also a differentiated state
        add("x", [n], "states", prefixes="output", attrs=attrs_for([n]))
        tags.add("array-output-that-is-a-state")
    else:
        add("x", [n], "states", attrs=attrs_for([n]))
    eqs.append("  der(x) = -x;")
    tags.add("derivative-of-array")
    if rng.random() < 0.7:
        add("A", [n, m2], "alg_states", attrs=attrs_for([n, m2]))
        eqs.append("  for i in 1:%d loop\n%s  end for;" % (n, "".join("    A[i, %d] = x[i] * %d;\n" % (j + 1, j + 2) for j in range(m2))))
        tags.add("array-2d-non-square")
    has_A = "A" in arrays
    if has_A and rng.random() < 0.4:
        # delay of a whole matrix expression (no loop)
        if "pd" not in "".join(decls):
            decls.append("  parameter Real pd = 1.5;")
        add("D", [n, m2], "alg_states")
        eqs.append("  D = delay(%s, pd);" % rng.choice(["A", "2 * A", "A + A"]))
        tags.add("delayed-matrix-expression")
    if rng.random() < 0.6:
        add("y", [n], "alg_states", prefixes="output", attrs=attrs_for([n]))
        eqs.append("  y = 2 * x;")
        tags.add("array-output")
    if rng.random() < 0.5:
        add("u", [n], "inputs", prefixes="input", attrs=attrs_for([n]))
        eqs.append("  for i in 1:%d loop\n    w[i] = u[i] + x[i];\n  end for;" % n)
        add("w", [n], "alg_states")
        tags.add("array-input")
    if rng.random() < 0.5:
        add("p", [n], "parameters", prefixes="parameter", attrs=attrs_for([n]) if rng.random() < 0.5 else {}, value=lit_array(rng, [n], 1, 5))
        add("z", [n], "alg_states")
        eqs.append("  z = p .* x;")
        tags.add("array-parameter")
    if rng.random() < 0.3:
        add("k", [m2], "constants", prefixes="constant", value=lit_array(rng, [m2], 1, 5))
        tags.add("array-constant")
    if rng.random() < 0.35:
        # attributes that are symbolic matrices: an array parameter and expressions of it
        Lv = lit_array(rng, [n, m2], 1, 9)
        add("L", [n, m2], "parameters", prefixes="parameter", value=Lv)
        La = np.array(Lv)
        decls.append("  Real z2[%d, %d](max = L, min = -3 * L, nominal = 2 * L + 1);" % (n, m2))
        arrays["z2"] = {"dims": [[n, m2]], "attrs": {"max": La.tolist(), "min": (-3 * La).tolist(), "nominal": (2 * La + 1).tolist()},
                        "list": "alg_states"}
        eqs.append("  for i in 1:%d loop\n%s  end for;" % (n, "".join("    z2[i, %d] = x[i] + %d;\n" % (j + 1, j) for j in range(m2))))
        tags.add("attr:symbolic-matrix-of-array-parameter")
    if rng.random() < 0.3:
        # a two-index variable whose last dimension has size 1, with symbolic array attributes
        L1v = lit_array(rng, [n, 1], 1, 9)
        add("L1", [n, 1], "parameters", prefixes="parameter", value=L1v)
        L1a = np.array(L1v)
        decls.append("  Real z3[%d, 1](max = L1, min = -2 * L1);" % n)
        arrays["z3"] = {"dims": [[n, 1]], "attrs": {"max": L1a.tolist(), "min": (-2 * L1a).tolist()}, "list": "alg_states"}
        eqs.append("  for i in 1:%d loop\n    z3[i, 1] = x[i] + 5;\n  end for;" % n)
        tags.add("attr:symbolic-column-matrix-of-array-parameter")
    if rng.random() < 0.3:
        if "pd" not in "".join(decls):
            decls.append("  parameter Real pd = 1.5;")
        add("dl", [n], "alg_states")
        eqs.append("  for i in 1:%d loop\n    dl[i] = delay(x[i] * 2, pd);\n  end for;" % n)
        tags.add("delayed-array-expression")
    if rng.random() < 0.3:
        # a delay of a scalar expression whose duration is an element of an array parameter
        add("tau", [2], "parameters", prefixes="parameter", value=[1.5, 2.5])
        decls.append("  Real rs;")
        decls.append("  Real sd;")
        eqs.append("  rs = 2 * time;")
        eqs.append("  sd = delay(rs, tau[%d]);" % rng.randint(1, 2))
        tags.add("delay-duration-is-array-parameter-element")
    k = rng.random()
    if k < 0.45:
        # array of components holding an array
        nz, nc = rng.randint(2, 3), rng.randint(2, 3)
        inner_attr = ""
        cattrs = {}
        if rng.random() < 0.35:
            tags.add("attr:array-in-component-array")
            cattrs = {"start": lit_array(rng, [nz])}
            inner_attr = "(start = %s)" % fmt(cattrs["start"])
        elif rng.random() < 0.5:
            cattrs = {"start": round(rng.uniform(0, 9), 1)}
            inner_attr = "(start = %s)" % cattrs["start"]
            tags.add("attr:scalar-in-component-array")
        pre = "model C\n  Real zz[%d]%s;\n  Real s;\nequation\n  der(zz) = -zz;\n  s = sum(zz);\nend C;\n\n" % (nz, inner_attr)
        outer = ""
        if rng.random() < 0.4:
            # a second list attribute, given from outside through the component array: it spans both levels
            oa = rng.choice(["nominal", "max"])
            cattrs = dict(cattrs)
            cattrs[oa] = lit_array(rng, [nc, nz], 1, 9)
            outer = "(zz(%s = %s))" % (oa, fmt(cattrs[oa]))
            tags.add("attr:array-through-component-array-modification")
        decls.append("  C c[%d]%s;" % (nc, outer))
        arrays["c.zz"] = {"dims": [[nc], [nz]], "attrs": cattrs, "list": "states", "inner_attr": True}
        arrays["c.s"] = {"dims": [[nc], []], "attrs": {}, "list": "alg_states"}
        tags.add("component-array-holding-array")
    elif k < 0.6:
        # one component holding an array: c.zz[j]  (same flat name and CasADi shape as the next form, other indices)
        nz = rng.randint(2, 3)
        pre = "model C\n  Real zz[%d];\n  Real s;\nequation\n  der(zz) = -zz;\n  s = sum(zz);\nend C;\n\n" % nz
        decls.append("  C c;")
        arrays["c.zz"] = {"dims": [[], [nz]], "attrs": {}, "list": "states"}
        tags.add("component-holding-array")
    elif k < 0.75:
        # array of components holding a scalar: c[i].zz
        nc = rng.randint(2, 3)
        pre = "model C\n  Real zz;\n  Real s;\nequation\n  der(zz) = -zz;\n  s = 2 * zz;\nend C;\n\n"
        decls.append("  C c[%d];" % nc)
        arrays["c.zz"] = {"dims": [[nc], []], "attrs": {}, "list": "states"}
        arrays["c.s"] = {"dims": [[nc], []], "attrs": {}, "list": "alg_states"}
        tags.add("component-array-holding-scalar")
    decls.append("  Real q;")
    eqs.append("  q = sum(x);")
    text = pre + "model M\n" + "\n".join(decls) + "\nequation\n" + "\n".join(eqs) + "\nend M;\n"
    nt = sum(1 for a in arrays.values() if sum(len(d) for d in a["dims"]) >= 1) >= 2
    return text, arrays, tags, ext, nt


def expected_names(name, dims_levels, der=False):
    """a.b with levels [[2],[3]] -> a[1].b[1], a[1].b[2] ... in row-major order."""
    parts = name.split(".")
    shape = [d for lv in dims_levels for d in lv]
    out = []
    for ind in np.ndindex(*shape) if shape else [()]:
        it = iter(ind)
        s = []
        for p, lv in zip(parts, dims_levels):
            s.append(p + ("[" + ",".join(str(next(it) + 1) for _ in lv) + "]" if lv else ""))
        nm = ".".join(s)
        out.append(("der(%s)" % nm if der else nm, ind))
    return out


def elem(v, ind):
    a = np.asarray(v, dtype=float)
    if a.ndim == 0:
        return float(a)
    return float(a[tuple(ind[-a.ndim:])])


def check(ctx, text, arrays, tags, ext):
    import casadi as ca
    from checks.c11_residual import compile_model
    feat = ext or "core"
    case = {"text": text, "arrays": arrays, "tags": sorted(tags), "ext": ext}
    try:
        base = compile_model(text, "M", {})
    except Exception as e:
        ctx.discard("unexpanded-model-does-not-compile:" + type(e).__name__)
        return
    for opts in ({"expand_vectors": True}, {"expand_vectors": True, "expand_mx": True}):
        oname = "+".join(sorted(opts))
        try:
            ex = compile_model(text, "M", opts)
            f1, f2 = ex.dae_residual_function, ex.initial_residual_function
        except Exception as e:
            ctx.violation("C18:%s:expand-raises:%s" % (feat, exc_sig(e)), "options %s: %r\n%s" % (oname, e, text), dict(case, opts=opts))
            return
        ctx.monitor("expanded_models")
        ctx.cover("options:" + oname)
        # names and order per list
        for lst in ("states", "der_states", "alg_states", "inputs", "parameters", "constants"):
            exp = []
            for v in getattr(base, lst):
                nm = v.symbol.name()
                if nm.startswith("_pymoca_delay"):
                    exp += [(a, (), nm) for a in delay_names(nm, v.symbol)]
                    continue
                key = nm[4:-1] if lst == "der_states" else nm
                if key in arrays:
                    exp += [(a, ind, key) for a, ind in expected_names(key, arrays[key]["dims"], lst == "der_states")]
                else:
                    exp.append((nm, (), key))
            got = [v.symbol.name() for v in getattr(ex, lst)]
            ctx.monitor("scalar_names_compared", len(exp))
            # generated delay symbols are not Modelica variables: a vector may be indexed [i] or [i,1]
            got = [norm_delay(g_, base) for g_ in got]
            if got != [e_[0] for e_ in exp]:
                ctx.violation("C18:%s:names:%s" % (feat, lst), "options %s: %s = %s, expected %s\n%s" % (oname, lst, got, [e_[0] for e_ in exp], text), dict(case, opts=opts))
                return
            # attributes
            if lst == "der_states":
                continue
            bvars = {v.symbol.name(): v for v in getattr(base, lst)}
            for v, (nm, ind, key) in zip(getattr(ex, lst), exp):
                if v.symbol.numel() != 1:
                    ctx.violation("C18:%s:not-scalar" % feat, "%s is not scalar after expansion\n%s" % (nm, text), dict(case, opts=opts))
                    return
                if key not in arrays:
                    continue
                for a in ("value", "start", "min", "max", "nominal"):
                    if a in arrays[key]["attrs"]:
                        want = elem(arrays[key]["attrs"][a], ind)
                    else:
                        want = {"value": float("nan"), "start": 0.0, "min": -np.inf, "max": np.inf, "nominal": 0.0}[a]
                    val = getattr(v, a)
                    try:
                        if isinstance(val, ca.MX) and not val.is_constant():
                            # symbolic in the (expanded) parameters: evaluate at their declared values
                            ps = [p_.symbol for p_ in ex.parameters]
                            pvals = [ca.DM(np.asarray(p_.value, dtype=float)) for p_ in ex.parameters]
                            g = float(ca.Function("a", ps, [val]).call(pvals)[0])
                        else:
                            g = float(ca.DM(val)) if not isinstance(val, ca.MX) else float(ca.DM(ca.evalf(val)))
                    except Exception as e:
                        ctx.violation("C18:%s:attribute-not-scalar:%s" % (feat, a), "%s.%s = %r (%r)\n%s" % (nm, a, val, e, text), dict(case, opts=opts))
                        return
                    ctx.monitor("attribute_elements_compared")
                    if not (np.isnan(g) and np.isnan(want)) and g != want and abs(g - want) > 1e-12:
                        ctx.violation("C18:%s:attribute-element:%s" % (feat, a), "%s.%s = %s, matching array element is %s\n%s" % (nm, a, g, want, text), dict(case, opts=opts))
                        return
        # outputs and delay states
        exp_out = []
        for o in base.outputs:
            exp_out += [a for a, _ in expected_names(o, arrays[o]["dims"])] if o in arrays else [o]
        if list(ex.outputs) != exp_out:
            ctx.violation("C18:%s:outputs" % feat, "options %s: outputs %s, expected %s\n%s" % (oname, list(ex.outputs), exp_out, text), dict(case, opts=opts))
            return
        exp_ds = []
        for dsn in base.delay_states:
            exp_ds += delay_names(dsn, next(v.symbol for v in base.inputs if v.symbol.name() == dsn))
        if sorted(norm_delay(d_, base) for d_ in ex.delay_states) != sorted(exp_ds):
            ctx.violation("C18:%s:delay-states" % feat, "options %s: delay_states %s, expected %s\n%s" % (oname, list(ex.delay_states), exp_ds, text), dict(case, opts=opts))
            return
        # residuals under the renaming
        rng = ctx.rng
        for trial in range(3):
            env = {"time": 1.0}
            for lst in ("states", "der_states", "alg_states", "inputs", "parameters", "constants"):
                for v in getattr(base, lst):
                    nm = v.symbol.name()
                    key = nm[4:-1] if lst == "der_states" else nm
                    shape = [d for lv in arrays[key]["dims"] for d in lv] if key in arrays else []
                    if nm.startswith("_pymoca_delay"):
                        continue
                    val = np.array([round(rng.uniform(0.5, 4), 3) for _ in range(int(np.prod(shape)) if shape else 1)])
                    env[nm] = val.reshape(shape) if shape else float(val[0])
            pb = adapters.complete_point(base, env)
            pe = adapters.complete_point(ex, env)
            for initial in (False, True):
                rb = adapters.residual(base, pb, initial)
                re_ = adapters.residual(ex, pe, initial)
                ctx.monitor("residual_points_compared")
                if rb.shape != re_.shape or not np.allclose(rb, re_, rtol=1e-9, atol=1e-11):
                    ctx.violation("C18:%s:residual-differs%s" % (feat, ":initial" if initial else ""),
                                  "options %s: expanded residual %s, unexpanded %s\n%s" % (oname, re_.tolist(), rb.tolist(), text), dict(case, opts=opts))
                    return
            # delay arguments, as (expr, duration) multiset
            if base.delay_states:
                db = adapters.call_function(base.delay_arguments_function, adapters.model_args(base, pb))
                try:
                    de = adapters.call_function(ex.delay_arguments_function, adapters.model_args(ex, pe))
                except Exception as e:
                    ctx.violation("C18:%s:delay-arguments-function-raises:%s" % (feat, type(e).__name__),
                                  "options %s: the delay arguments function of the expanded model cannot be built or evaluated: %s\n%s" % (
                                      oname, str(e)[:300], text), dict(case, opts=opts))
                    return
                fb = sorted((float(x), float(d.reshape(-1)[0])) for e_, d in zip(db[::2], db[1::2]) for x in e_.reshape(-1))
                fe = sorted((float(x), float(d.reshape(-1)[0])) for e_, d in zip(de[::2], de[1::2]) for x in e_.reshape(-1))
                if len(fb) != len(fe) or not np.allclose(np.array(fb), np.array(fe), rtol=1e-9):
                    ctx.violation("C18:%s:delay-arguments" % feat, "options %s: delay arguments %s vs %s\n%s" % (oname, fe, fb, text), dict(case, opts=opts))
                    return
                # pairing: the delay state named S[i,j] must delay element [i,j] of the expression S delays
                bexpr = {dsn: np.asarray(db[2 * k0], dtype=float) for k0, dsn in enumerate(base.delay_states)}
                for k1, dsn in enumerate(ex.delay_states):
                    if "[" not in dsn:
                        continue
                    b0, ind = dsn[:dsn.index("[")], [int(t) for t in dsn[dsn.index("[") + 1:-1].split(",")]
                    if b0 not in bexpr:
                        continue
                    arr = bexpr[b0]
                    if arr.ndim == 2 and arr.shape[1] == 1 and len(ind) == 1:
                        ind = ind + [1]
                    try:
                        want = float(arr[tuple(i - 1 for i in ind)])
                    except IndexError:
                        want = None
                    got = float(np.asarray(de[2 * k1], dtype=float).reshape(-1)[0])
                    ctx.monitor("delay_state_pairings_compared")
                    if want is None or abs(got - want) > 1e-9 * max(1.0, abs(want)):
                        ctx.violation("C18:%s:delay-state-paired-with-wrong-element" % feat,
                                      "options %s: delay state %s delays %s, element %s of the unexpanded expression is %s\n%s" % (oname, dsn, got, ind, want, text),
                                      dict(case, opts=opts))
                        return


def delay_names(nm, sym):
    """generated delay symbols are not Modelica variables: a column is indexed [i] (or [i,1]), a matrix [i,j] row-major."""
    r, c = sym.size1(), sym.size2()
    if c == 1:
        return ["%s[%d]" % (nm, i + 1) for i in range(r)]
    return ["%s[%d,%d]" % (nm, i + 1, j + 1) for i in range(r) for j in range(c)]


def norm_delay(name, base):
    if not name.startswith("_pymoca_delay") or not name.endswith(",1]"):
        return name
    b0 = name[:name.index("[")]
    sym = next((v.symbol for v in base.inputs if v.symbol.name() == b0), None)
    if sym is not None and sym.size2() == 1:
        return name[:-3] + "]"
    return name


def one(ctx, rng, k):
    text, arrays, tags, ext, nt = gen_case(rng)
    ctx.case(text, nt, {"model": text} if k < 1 else None)
    for t in tags:
        ctx.cover(t)
    check(ctx, text, arrays, tags, ext)


def run_shard(ctx):
    logging.getLogger("pymoca").setLevel(logging.ERROR)
    for k in range(ctx.n(2000, 30000)):
        if ctx.out_of_time():
            break
        ctx.guarded(one, ctx, ctx.rng, k, timeout=120)


def replay(ctx, case):
    logging.getLogger("pymoca").setLevel(logging.ERROR)
    check(ctx, case["text"], case["arrays"], set(case["tags"]), case.get("ext"))
