"""C07 - hierarchical flattening instantiates every component once.

Reference-model monitor on tree.flatten: generated libraries (component hierarchies to depth 4,
several instances of one class, extends chains and multiple extends, nested class definitions,
extends of a class from an enclosing scope, type aliases, arrays of scalars) are flattened by the
real code and by the independent reference instantiation in vf.mlib; variable sets, types,
prefixes, dimensions and the multiset of equations (by value at random points) must agree."""
import logging

import numpy as np

from vf import adapters, mexpr, mlib
from vf.worker import exc_sig

LEVEL = "exploration"
RULE = ("generated libraries of 2-6 top-level models (+ nested class definitions, type aliases); every "
        "model/class of every library is flattened; distinct = digest of (library text, class); non-trivial = "
        "the flattened class has a class-typed component or an extends clause")
ASSUMPTIONS = ["vf.mlib's reference instantiation is the Modelica meaning of the generated subset",
               "equations are compared as multisets of residual values at 4 random points over the flat variable names",
               "'declared type' of an alias-typed component is its elementary base type"]
REQUIRED_MONITORS = ["classes_flattened", "variables_compared", "equations_compared"]
BUDGET = {"quick": 45, "thorough": 700}
KEEP_PREFIXES = {"parameter", "constant", "discrete", "flow", "input", "output"}


def flat_dims(sym):
    out = []
    for dl in sym.dimensions:
        for d in dl:
            v = getattr(d, "value", d)
            if v is not None:
                out.append(v)
    return out


def eq_signature(lhs, rhs, pts):
    vals = []
    for env in pts:
        l = mexpr.evaluate(lhs, env, "casadi")
        r = mexpr.evaluate(rhs, env, "casadi")
        try:
            vals.append(float(np.asarray(l, dtype=float) - np.asarray(r, dtype=float)))
        except (ValueError, TypeError):
            # non-numeric operand (e.g. a string that ended up in an equation): still a signature
            vals.append(float(sum(map(ord, repr((l, r)))) + 0.123))
    return tuple(vals)


def make_points(flat, rng, n=4):
    pts = []
    for _ in range(n):
        env = {"time": 1.5}
        for name, v in flat.vars.items():
            shape = tuple(v["dims"])
            if v["type"] == "Boolean":
                val = float(rng.random() < 0.5)
            elif v["type"] == "Integer":
                # parameters named ks* are used as subscripts of arrays with at least two elements
                val = float(rng.randint(1, 2)) if name.split(".")[-1].startswith("ks") else float(rng.randint(1, 7))
            else:
                val = round(rng.uniform(0.5, 7.5), 3)
            # array elements get distinct values, so that a wrong subscript is visible
            env[name] = val if not shape else (np.full(shape, val) + 0.37 * np.arange(int(np.prod(shape))).reshape(shape))
            env["der(%s)" % name] = round(rng.uniform(-3, 3), 3)
        pts.append(env)
    return pts


def same_multiset(a, b):
    if len(a) != len(b):
        return False
    a, b = sorted(a), sorted(b)
    for x, y in zip(a, b):
        for u, v in zip(x, y):
            if abs(u - v) > 1e-8 * max(1.0, abs(u), abs(v)):
                return False
    return True


def compare_flat(ctx, fc, ref, rng, feat, check_eqs=True):
    """fc: pymoca flat class, ref: mlib.Flat.  -> (key suffix, message) or None"""
    got_names = list(fc.symbols.keys())
    exp_names = list(ref.order)
    if len(got_names) != len(set(got_names)):
        return ("duplicate-variable", "flat symbols contain duplicates")
    missing = [n for n in exp_names if n not in fc.symbols]
    extra = [n for n in got_names if n not in ref.vars]
    if missing:
        return ("variable-missing", "flat model lacks %s" % missing[:5])
    if extra:
        return ("variable-extra", "flat model has unexpected %s" % extra[:5])
    for n in exp_names:
        sym, rv = fc.symbols[n], ref.vars[n]
        ctx.monitor("variables_compared")
        tname = getattr(sym.type, "name", None)
        if tname != rv["type"]:
            return ("type", "%s has type %r, declared %s" % (n, tname, rv["type"]))
        gp = {p for p in sym.prefixes if p in KEEP_PREFIXES}
        ep = set(rv["prefixes"]) & KEEP_PREFIXES
        if gp != ep:
            lost = ep - gp
            gained = gp - ep
            kind = "prefix-lost:%s" % sorted(lost)[0] if lost else "prefix-gained:%s" % sorted(gained)[0]
            return (kind, "%s has prefixes %s, expected %s" % (n, sorted(gp), sorted(ep)))
        if flat_dims(sym) != list(rv["dims"]):
            return ("dimensions", "%s has dimensions %s, expected %s" % (n, flat_dims(sym), rv["dims"]))
    if not check_eqs:
        return None
    pts = make_points(ref, rng)
    exp = {False: [], True: []}
    for lhs, rhs, ini in mlib.flat_equations(ref):
        exp[ini].append(eq_signature(lhs, rhs, pts))
    got = {False: [], True: []}
    for ini, eqs in ((False, fc.equations), (True, fc.initial_equations)):
        for e in eqs:
            try:
                got[ini].append(eq_signature(adapters.to_mexpr(e.left), adapters.to_mexpr(e.right), pts))
            except KeyError as ke:
                return ("equation-refers-to-unknown-variable", "flat equation %r = %r refers to %s which is not a flat variable" % (e.left, e.right, ke))
    for ini in (False, True):
        ctx.monitor("equations_compared", len(exp[ini]))
        if not same_multiset(got[ini], exp[ini]):
            which = "initial-equations" if ini else "equations"
            if len(got[ini]) < len(exp[ini]):
                kind = which + "-missing"
            elif len(got[ini]) > len(exp[ini]):
                kind = which + "-duplicated-or-extra"
            else:
                kind = which + "-differ"
            return (kind, "%s: %d flat vs %d expected (values at probe points differ)" % (which, len(got[ini]), len(exp[ini])))
    return None


def check_class(ctx, lib, text, cname, tags, rng, feat="core"):
    from pymoca import ast as past, parser, tree as ptree
    case = {"lib": lib, "text": text, "class": cname, "tags": sorted(tags), "feat": feat}
    idx, cls = mlib.find_class(lib, cname)
    try:
        ref = mlib.instantiate(idx, cls)
    except (KeyError, RecursionError) as e:
        ctx.inconclusive("reference cannot instantiate %s: %r" % (cname, e))
        return
    try:
        t = parser.parse(text, bypass_cache=True)
        if t is None:
            raise SyntaxError("generated library rejected by the parser")
        flat = ptree.flatten(t, past.ComponentRef.from_string(cname))
        fc = flat.classes[cname]
    except Exception as e:
        ctx.violation("C07:%s:flatten-raises:%s" % (feat, exc_sig(e)),
                      "flatten(%s) raised %r\n%s" % (cname, e, text), case)
        return
    ctx.monitor("classes_flattened")
    try:
        bad = compare_flat(ctx, fc, ref, rng, feat)
    except adapters.Unknown as u:
        ctx.inconclusive("adapter: %s" % u)
        return
    except mexpr.Undefined as u:
        ctx.discard("point:" + str(u))
        return
    if bad:
        ctx.violation("C07:%s:%s" % (feat, bad[0]), "%s: %s\n%s" % (cname, bad[1], text), case)


def run_shard(ctx):
    logging.disable(logging.CRITICAL)
    rng = ctx.rng
    n = ctx.n(1500, 60000)
    for k in range(n):
        if ctx.out_of_time():
            break
        ext = rng.choice(["ext:base-in-foreign-scope", "ext:scope-shadowing"]) if rng.random() < 0.06 else None
        g = mlib.LibGen(rng, "hier", ext)
        lib = g.build()
        text = mlib.print_library(lib)
        for t in g.tags:
            ctx.cover(t)
        for cname in mlib.flattenable_classes(lib):
            info = g.info[cname]
            nt = bool(info["cls"]["extends"]) or any(c["type"] in [x for x in g.info] or "." not in c["type"] and c["type"] not in mlib.BUILTIN and c["type"] not in g.base_of
                                                      for c in info["cls"]["comps"])
            ctx.case({"t": text, "c": cname}, nt, {"library": text, "class": cname} if not ctx.samples and nt else None)
            ctx.guarded(check_class, ctx, lib, text, cname, g.tags, rng, g.ext_classes.get(cname, "core"), timeout=60)


def replay(ctx, case):
    logging.disable(logging.CRITICAL)
    lib = relib(case["lib"])
    check_class(ctx, lib, case["text"], case["class"], set(case["tags"]), ctx.rng, case.get("feat", "core"))


def relib(lib):
    """json round trip -> tuples again."""
    from checks.c03_expr_precedence import _retree

    def req(e):
        return ("eq", _retree(e[1]), _retree(e[2]))

    def rmod(m):
        return dict(m, expr=_retree(m["expr"]))

    def rcls(c):
        c = dict(c)
        if c.get("alias"):
            c["alias"] = dict(c["alias"], mods={k: _retree(v) for k, v in (c["alias"].get("mods") or {}).items()})
        c["extends"] = [dict(e, mods=[rmod(m) for m in e.get("mods") or []]) for e in c.get("extends", [])]
        c["comps"] = [dict(x, mods=[rmod(m) for m in x.get("mods") or []],
                           value=None if x.get("value") is None else _retree(x["value"])) for x in c.get("comps", [])]
        c["classes"] = [rcls(x) for x in c.get("classes", [])]
        c["eqs"] = [req(e) for e in c.get("eqs", [])]
        c["ieqs"] = [req(e) for e in c.get("ieqs", [])]
        c["connects"] = [tuple(x) for x in c.get("connects", [])]
        return c
    return {"classes": [rcls(c) for c in lib["classes"]]}
