"""C16 - alias elimination merges variable metadata soundly.

Reference-model monitor on Model.simplify(detect_aliases): generated square models with alias chains
(positive and negative links, canonical variables among states / algebraics / inputs / derivatives)
whose members carry random bounds, nominals, fixed flags and start values.  For every class the real
alias relation reports, the canonical Variable's min/max/nominal/fixed/start (and its row of the
metadata function) are compared with an interval-arithmetic reference over the class members."""
import logging
import math

import numpy as np

from vf import adapters, gensolv
from checks import c14_simplify_solutions as c14

LEVEL = "exploration"
RULE = ("vf.gensolv models with 2-6 alias equations (chains, signed, of states/inputs/derivatives/algebraics) and "
        "random min/max/nominal/fixed/start attributes on the members, simplified with detect_aliases (and random "
        "compatible options); distinct = digest of (model text, options); non-trivial = an alias class with >=3 "
        "members or a negative link, and >=2 explicit attributes among its members")
ASSUMPTIONS = ["which member becomes canonical is the implementation's choice; the reference is evaluated for that choice",
               "when several members have an explicit start and the canonical has none, any member's (sign-adjusted) start is accepted"]
REQUIRED_MONITORS = ["simplify_runs", "alias_classes_checked", "attribute_comparisons"]
BUDGET = {"quick": 50, "thorough": 800}
DEF = {"min": -math.inf, "max": math.inf, "nominal": 0.0, "fixed": 0.0}


def num_of(e):
    from vf import mexpr
    return float(mexpr.evaluate(e, {}))


def fval(x):
    import casadi as ca
    if isinstance(x, ca.MX):
        return float(ca.DM(ca.evalf(x)))
    return float(ca.DM(x))


def one(ctx, rng, k):
    with_array = rng.random() < 0.3
    g = gensolv.SolvGen(rng, with_attrs=True, with_array=with_array)
    g.force_aliases = rng.randint(2, 5)
    g.build()
    text = g.text()
    opts = {"detect_aliases": True, "allow_derivative_aliases": rng.random() < 0.7}
    for o in ("expand_mx", "replace_constant_values", "eliminate_constant_assignments", "replace_parameter_expressions"):
        if rng.random() < 0.25:
            opts[o] = True
    if with_array:
        opts["expand_vectors"] = True       # the alias classes then contain the scalars xv[1], xv[2]
    if getattr(g, "late_alias", False) and not with_array and rng.random() < 0.6:
        # an alias that is only found by a second pass (see C14): its metadata must be merged all the same
        # (not together with expand_vectors: a second pass over an expanded model raises AttributeError today)
        opts.update({"eliminate_constant_assignments": True, "replace_constant_values": True, "iterative_simplification": True})
    attrs = {name: {a: (num_of(v) if v[0] != "bool" else float(v[1])) for a, v in at.items()} for _, _, name, at, _ in g.decls}
    if "xv[2]" in attrs:
        at = attrs.pop("xv[2]")
        attrs["xv[1]"], attrs["xv[2]"] = dict(at), dict(at)
    case = {"text": text, "options": opts, "attrs": attrs, "tags": sorted(g.tags)}
    try:
        before, model, warns = c14.compile_and_simplify(text, opts)
    except Exception as e:
        ctx.case({"t": text, "o": opts}, False, None)
        ctx.discard("reported-failure:exception:" + type(e).__name__)
        return
    ctx.monitor("simplify_runs")
    for t in g.tags:
        ctx.cover(t)
    allv = {}
    for lst in ("states", "der_states", "alg_states", "inputs", "parameters", "constants"):
        for v in getattr(model, lst):
            allv[v.symbol.name()] = (lst, v)
    nontrivial = False
    import casadi as ca
    # metadata function rows for the canonical variables
    meta = {}
    try:
        pv = [fval(p.value) if not isinstance(p.value, (list, np.ndarray)) else 0.0 for p in model.parameters]
        out = model.variable_metadata_function.call([ca.DM(pv)])
        for lst, mat in zip(("states", "alg_states", "inputs", "parameters", "constants"), out):
            mat = np.array(mat, dtype=float)
            for i, v in enumerate(getattr(model, lst)):
                if v.symbol.numel() == 1 and mat.shape[0] > i:
                    meta[v.symbol.name()] = mat[i]
    except Exception:
        meta = {}
    for canonical, aliases in model.alias_relation:
        if canonical not in allv:
            ctx.violation("C16:canonical-variable-not-in-model", "canonical %s of class %s is in no variable list\n%s" % (canonical, sorted(aliases), text), case)
            return
        members = [(canonical, 1.0)] + [((a[1:], -1.0) if a.startswith("-") else (a, 1.0)) for a in aliases]
        ctx.monitor("alias_classes_checked")
        ctx.cover("class-size:%d" % min(len(members), 5))
        if any(s < 0 for _, s in members):
            ctx.cover("class-with-negative-member")
        lo, hi, nom, fixed = -math.inf, math.inf, 0.0, 0.0
        explicit_starts = []
        n_explicit = 0
        for nm, sg in members:
            at = attrs.get(nm, {})
            n_explicit += len(at)
            mn, mx = at.get("min", -math.inf), at.get("max", math.inf)
            if sg > 0:
                lo, hi = max(lo, mn), min(hi, mx)
            else:
                lo, hi = max(lo, -mx), min(hi, -mn)
            nom = max(nom, at.get("nominal", 0.0))
            fixed = max(fixed, at.get("fixed", 0.0))
            if "start" in at:
                explicit_starts.append((nm, sg * at["start"]))
        nontrivial = nontrivial or ((len(members) >= 3 or any(s < 0 for _, s in members)) and n_explicit >= 2)
        cv = allv[canonical][1]
        exp = {"min": lo, "max": hi, "nominal": nom, "fixed": fixed}
        for a, want in exp.items():
            got = fval(getattr(cv, a))
            ctx.monitor("attribute_comparisons")
            if got != want and not (abs(got - want) <= 1e-12):
                ctx.violation("C16:%s-not-merged-soundly" % a,
                              "canonical %s of class %s has %s = %s, merging the members' declarations gives %s\n%s" % (
                                  canonical, [("-" if s < 0 else "") + n for n, s in members], a, got, want, text), case)
                return
            if canonical in meta:
                col = {"value": 0, "min": 1, "max": 2, "start": 3, "fixed": 4, "nominal": 5}[a]
                if meta[canonical][col] != want and not abs(meta[canonical][col] - want) <= 1e-12:
                    ctx.violation("C16:%s-in-metadata-function" % a,
                                  "metadata function reports %s = %s for %s, expected %s\n%s" % (a, meta[canonical][col], canonical, want, text), case)
                    return
        own = attrs.get(canonical, {}).get("start")
        got = fval(cv.start)
        ctx.monitor("attribute_comparisons")
        if own is not None:
            if abs(got - own) > 1e-12:
                ctx.violation("C16:start:own-start-not-kept", "canonical %s had start %s, after alias elimination %s\n%s" % (canonical, own, got, text), case)
                return
            ctx.cover("start:own-kept")
        elif explicit_starts:
            if not any(abs(got - s) <= 1e-12 for _, s in explicit_starts):
                ctx.violation("C16:start:alias-start-not-taken",
                              "canonical %s has no start of its own; members give %s (sign-adjusted) but it has %s\n%s" % (
                                  canonical, explicit_starts, got, text), case)
                return
            ctx.cover("start:taken-from-alias")
        else:
            if abs(got) > 1e-12:
                ctx.violation("C16:start:invented", "no member declares a start, canonical %s has %s\n%s" % (canonical, got, text), case)
                return
    ctx.case({"t": text, "o": opts}, nontrivial, {"model": text, "options": opts} if k < 1 else None)


def run_shard(ctx):
    logging.getLogger("pymoca").setLevel(logging.ERROR)
    for k in range(ctx.n(5000, 50000)):
        if ctx.out_of_time():
            break
        ctx.guarded(one, ctx, ctx.rng, k, timeout=120)


def replay(ctx, case):
    logging.getLogger("pymoca").setLevel(logging.ERROR)
    ctx.inconclusive("C16 replay: re-run the check with the recorded seed (cases are regenerated from the seed stream)")
